"""C04 -- tar <-> SquashFS conversion: structural clauses."""
from ..ir import load_program, strip_casts, norm_callee
from ..build import AnalysisBroken
from ..util import backward_slice, const_int, resolve_ptr
from ..effects import slot_call, fields_in_slice, success_points, Effects
from ..errflow import ret_sources, failure_edges, consistent_reach
from ..k7 import run_k7


def rule_entry_identity(chk, prog):
    """K2-identity: the hard link filter takes two entries for links to one object when their (device, inode) identities are
    equal.  For entries that come out of an image that identity is the position of the inode in the image (the inode
    reference: the entry's ent_ref, the super block's root_inode_ref), which two different objects cannot share.  A number
    that is stored *in* the inode is whatever the image says: two files with the same inode_number would be written as
    hard links of each other, the second one's contents lost."""
    n = 0
    for f in prog.functions():
        if f.decl or not (f.unit.src.startswith("lib/sqfs/src/dir_iterator.c") or f.unit.src.startswith("bin/sqfs2tar/")):
            continue
        for i in f.build().insts():
            if i.op != "store":
                continue
            q = strip_casts(i.ops[1])
            if not (q.is_inst and q.op == "getelementptr" and q.field() and "sqfs_dir_entry_t" in q.field()[0] and q.field()[1] == "inode"):
                continue
            n += 1
            chk.analysed(f)
            flds = {nm for (_s, nm) in fields_in_slice(i.ops[0])}
            inst = "%s:entry.inode@%d" % (f.name, i.line)
            if flds & {"ent_ref", "root_inode_ref", "inode_ref"} and "inode_number" not in flds:
                chk.ok("K2-identity", inst, i, "the identity of an image entry is its inode reference")
            else:
                chk.violation("K2-identity", inst, i, "the identity handed to the hard link filter is taken from %s, not from the inode "
                              "reference: two different inodes of a (crafted) image can carry the same value and are then "
                              "written to the archive as hard links of each other" % (sorted(flds) or "something else"))
    return n


def rule_writer_wellformed(chk, prog):
    """C04-c: write_tar_header: the checksum is computed after every other store into the header;
    every regular file's data is followed by the padding call; sqfs2tar terminates and flushes before success"""
    unit = prog.by_src.get("lib/tar/src/write_header.c")
    if unit is None:
        raise AnalysisBroken("lib/tar/src/write_header.c not in the closure")
    n = 0
    for f in unit.functions.values():
        if f.decl:
            continue
        f.build()
        pass
    # the function that writes the checksum field: it calls tar_compute_checksum on the header it was given.  Functions
    # that end the filling of a header they were given with it are finishers themselves (their callers inherit the duty).
    finishers = {}
    for f in unit.functions.values():
        if f.decl:
            continue
        for c in f.build().calls():
            if norm_callee(c.callee) == "tar_compute_checksum":
                b = strip_casts(resolve_ptr(prog, c.ops[0], f.unit)[0])
                if b.is_arg:
                    finishers[f] = b.idx
    if not finishers:
        chk.broke("no function of write_header.c computes the header checksum")
    MODS = ("memcpy", "memset", "sprintf", "snprintf", "strcpy", "strncpy")
    writers = set()
    for f in unit.functions.values():
        if not f.decl and f not in finishers and f.internal and f.params and f.params[0].ty == "i8*":
            if any(i.op == "store" or (i.op == "call" and norm_callee(i.callee) in MODS) for i in f.build().insts()):
                writers.add(f.name)           # write_number & co: fill a field they are handed
    changed = True
    done = set()
    while changed:
        changed = False
        for f in unit.functions.values():
            if f.decl or f in done:
                continue
            f.build()
            cks = [(c, finishers[g]) for c in f.calls() if c.callee for g in [prog.fn(c.callee, f.unit)]
                   if g in finishers and g is not f]
            if not cks:
                continue
            done.add(f)
            chk.analysed(f)

            def sends_itself(g, k):
                """the finisher hands the header it was given to the stream itself, behind the checksum"""
                g.build()
                cc = [x for x in g.calls() if norm_callee(x.callee) == "tar_compute_checksum"] + \
                     [x for x in g.calls() if x.callee and prog.fn(x.callee, g.unit) in finishers and prog.fn(x.callee, g.unit) is not g]
                for x in g.calls():
                    if slot_call(x) == ("struct.sqfs_ostream_t", "append") and len(x.ops) > 1:
                        b = strip_casts(resolve_ptr(prog, x.ops[1], g.unit)[0])
                        if b.is_arg and b.idx == k and cc and all(g.inst_dominates(y, x) for y in cc):
                            return True
                return False
            for (c, k) in cks:
                n += 1
                hdr = strip_casts(resolve_ptr(prog, c.ops[k], f.unit)[0])
                later = []
                for i in f.insts():
                    if i is c or not (f.inst_dominates(c, i) or f.reaches(c.bb, i.bb)) or i.bb is c.bb and i.pos < c.pos:
                        continue
                    if i.op == "store" and strip_casts(resolve_ptr(prog, i.ops[1], f.unit)[0]) is hdr:
                        later.append(i)
                    elif i.op == "call" and (norm_callee(i.callee) in MODS or norm_callee(i.callee) in writers) and \
                            i.ops and strip_casts(resolve_ptr(prog, i.ops[0], f.unit)[0]) is hdr:
                        later.append(i)
                inst = "%s:checksum-last" % f.name
                if hdr.is_arg:
                    # a helper that finishes a header it was given: nothing after the checksum here, the rest is the callers'
                    if not later:
                        chk.ok("K11-tarhdr", inst, c, "the checksum is the last modification this helper makes to the header it was given")
                        if f not in finishers:
                            finishers[f] = hdr.idx
                            changed = True
                    else:
                        chk.violation("K11-tarhdr", inst, later[0], "the tar header is modified after its checksum was computed: other tar "
                                      "implementations reject the entry")
                    continue
                # the append of the header must follow
                outs = [x for x in f.calls() if slot_call(x) == ("struct.sqfs_ostream_t", "append") and
                        strip_casts(resolve_ptr(prog, x.ops[1], f.unit)[0]) is hdr]
                callee = prog.fn(c.callee, f.unit)
                if not later and ((outs and all(f.inst_dominates(c, o) for o in outs)) or
                                  (not outs and callee is not None and sends_itself(callee, k))):
                    chk.ok("K11-tarhdr", inst, c, "the checksum is the last modification of the header before it is appended")
                else:
                    chk.violation("K11-tarhdr", inst, (later or [c])[0], "the tar header is modified after its checksum was computed (or "
                                  "appended before it): other tar implementations reject the entry")
    if n == 0:
        chk.broke("no checksum update found in write_header.c")
    # sqfs2tar main: terminate_archive and flush succeed before EXIT_SUCCESS
    main = [f for f in prog.functions() if f.name == "main" and f.unit.src.startswith("bin/sqfs2tar/")]
    if not main:
        chk.broke("sqfs2tar main not found")
        return
    main = main[0]
    chk.analysed(main)
    zero_blocks = {b for (v, b) in ret_sources(main) if v.is_const and v.is_int and v.sval == 0}
    # the end-of-archive marker, found by what it is: an append of >= 1024 bytes out of a zero-filled local buffer,
    # in main itself or in a helper that main calls
    def trailer_appends(f):
        out = []
        for x in f.calls():
            if slot_call(x) != ("struct.sqfs_ostream_t", "append") or len(x.ops) < 3:
                continue
            n_ = x.ops[2]
            if not (n_.is_const and n_.is_int and n_.uval >= 1024):
                continue
            buf = strip_casts(resolve_ptr(prog, x.ops[1], f.unit)[0])
            if not (buf.is_inst and buf.op == "alloca"):
                continue
            zeroed = [m for m in f.calls() if norm_callee(m.callee) == "memset" and len(m.ops) >= 3 and
                      strip_casts(resolve_ptr(prog, m.ops[0], f.unit)[0]) is buf and m.ops[1].is_const and m.ops[1].is_int and
                      m.ops[1].uval == 0 and f.inst_dominates(m, x)]
            if zeroed:
                out.append(x)
        return out
    cs = list(trailer_appends(main))
    name = "append(zero blocks)"
    if not cs:
        for c in main.calls():
            g = prog.fn(c.callee or "", main.unit)
            if g is not None and not g.decl and g.unit.src.startswith("bin/sqfs2tar/"):
                g.build()
                if trailer_appends(g):
                    cs.append(c)
                    name = g.name
    ok = bool(cs) and bool(zero_blocks)
    for c in cs:
        fe = failure_edges(main, c)
        if not fe:
            ok = False
        for (s_, fact) in fe:
            if consistent_reach(main, s_, c, fact, zero_blocks):
                ok = False
        if not all(main.dominates(c.bb, b) for b in zero_blocks):
            ok = False
    if ok:
        chk.ok("K1-tarend", "sqfs2tar:%s" % name, cs[0], "exit status 0 only after the end-of-archive blocks were written")
    else:
        chk.violation("K1-tarend", "sqfs2tar:%s" % name, cs[0] if cs else main, "sqfs2tar can exit 0 without a terminated archive")
    # file data followed by padding: from the call that copies file data, on the way on which it ended with 0, every
    # path to a return that may be 0 passes padd_file()
    from .c13 import _e7_walk, _e7_zero_known

    class _Start:
        pass
    for f in prog.functions():
        if not f.unit.src.startswith("bin/sqfs2tar/"):
            continue
        sp = [c for c in f.calls() if norm_callee(c.callee) == "sqfs_istream_splice"]
        if not sp:
            continue
        chk.analysed(f)
        for c in sp:
            st = _Start()
            st.bb = c.bb
            zero = _e7_zero_known(f, c.bb) | {id(c)}
            bad = None
            for (v, r, path) in _e7_walk(prog, f, st, None, [], zero):
                if v.is_const and v.is_int and v.sval != 0:
                    continue
                padded = False
                for k, b_ in enumerate(path):
                    insts = b_.insts[c.pos + 1:] if (k == 0 and b_ is c.bb) else b_.insts
                    if any(i.op == "call" and norm_callee(i.callee) == "padd_file" for i in insts):
                        padded = True
                if not padded:
                    bad = r
                    break
            if bad is None:
                chk.ok("K1-tarpad", f.name, c, "after the file data was copied completely, every way to return 0 passes padd_file(): "
                       "file data is always padded to the 512-byte record size")
            else:
                chk.violation("K1-tarpad", f.name, c, "file data can be written and 0 returned without padding to the record size: "
                              "the next header starts mid-record")


def rule_ext_order(chk, prog):
    """K11-extorder: the extension records in front of a tar header are written in an order the project's own reader
    survives.  From read_header's switch on the type flag: R = type flags whose case wipes what earlier records of the
    entry supplied (it calls clear_header / zeroes the 'already set' mask), A = type flags whose case supplies
    something (sets a bit of that mask).  In every writer function no record of a type in R is emitted after a record
    of a type in A (emission = a call, possibly through helpers, that passes the type flag as a constant)."""
    global _PROG
    _PROG = prog
    rd = [f for f in prog.functions() if f.name == "read_header" and f.unit.src.startswith("lib/tar/")]
    if not rd:
        chk.broke("lib/tar read_header not found")
        return
    rd = rd[0].build()
    sw = None
    for b in rd.blocks:
        t = b.term
        if t.op == "switch" and len(t.x["cases"]) >= 4:
            v = t.ops[0]
            if any((n_ == "typeflag") for x in backward_slice(v, phi_control=False, limit=40) if x.is_inst and x.op == "load"
                   for (_s, n_) in ([strip_casts(x.ops[0]).field()] if strip_casts(x.ops[0]).is_inst and
                                    strip_casts(x.ops[0]).op == "getelementptr" and strip_casts(x.ops[0]).field() else [])):
                sw = t
    if sw is None:
        chk.broke("read_header: no switch on the type flag found")
        return
    # the mask: a local that is or-ed with constants in the cases
    R, A = set(), set()
    targets = {}
    for v, blk in sw.x["cases"]:
        targets.setdefault(blk, []).append(v.uval if hasattr(v, "uval") else v)
    for blk, vals in targets.items():
        # blocks of this case: everything reachable without passing the switch block again or its default/merge
        seen, stack = set(), [blk]
        while stack:
            x = stack.pop()
            if x in seen or x is sw.bb or len(seen) > 40:
                continue
            seen.add(x)
            stack.extend(s_ for s_ in x.succs if s_ is not sw.bb)
        wipes = supplies = False
        for x in seen:
            # only blocks dominated by the case entry belong to it
            if not rd.dominates(blk, x):
                continue
            for i in x.insts:
                if i.op == "call" and norm_callee(i.callee) == "clear_header":
                    wipes = True
                if i.op == "store" and strip_casts(i.ops[1]).is_inst and strip_casts(i.ops[1]).op == "alloca":
                    if i.ops[0].is_const and i.ops[0].is_int and i.ops[0].uval == 0 and i.x.get("vt", "") in ("i32",):
                        pass
                    w = i.ops[0]
                    if w.is_inst and w.op == "or" and any(o.is_const for o in w.ops):
                        supplies = True
        for v in vals:
            if wipes:
                R.add(v)
            elif supplies:
                A.add(v)
    if not R or not A:
        chk.broke("read_header: could not tell wiping (%s) from supplying (%s) record types" % (sorted(R), sorted(A)))
        return
    # writer side
    emits = {}

    def emitted(f, depth=0):
        if f in emits:
            return emits[f]
        emits[f] = set()
        if f.decl or depth > 4:
            return emits[f]
        f.build()
        out = set()
        for c in f.calls():
            for o in c.ops:
                if o.is_const and o.is_int and o.uval in (R | A) and (getattr(o, "bits", 8) or 8) <= 32:
                    t = prog.fn(c.callee or "", f.unit)
                    if t is not None and not t.decl and _stores_param_to(t, c.ops.index(o), "typeflag"):
                        out.add(o.uval)
            t = prog.fn(c.callee or "", f.unit) if c.callee else None
            if t is not None and t.unit.src.startswith("lib/tar/"):
                out |= emitted(t, depth + 1)
        emits[f] = out
        return out

    n = 0
    for f in prog.functions():
        if f.decl or not f.unit.src.startswith("lib/tar/src/write_header"):
            continue
        f.build()
        sites = []
        for c in f.calls():
            kinds = set()
            for o in c.ops:
                if o.is_const and o.is_int and o.uval in (R | A):
                    t = prog.fn(c.callee or "", f.unit)
                    if t is not None and not t.decl and _stores_param_to(t, c.ops.index(o), "typeflag"):
                        kinds.add(o.uval)
            t = prog.fn(c.callee or "", f.unit) if c.callee else None
            if t is not None and t is not f and t.unit.src.startswith("lib/tar/"):
                kinds |= emitted(t)
            if kinds:
                sites.append((c, kinds))
        if not any(k & A for (_c, k) in sites) or not any(k & R for (_c, k) in sites):
            continue
        n += 1
        chk.analysed(f)
        bad = None
        for (ca, ka) in sites:
            if not (ka & A):
                continue
            for (cr, kr) in sites:
                if cr is ca or not (kr & R):
                    continue
                if (ca.bb is cr.bb and ca.pos < cr.pos) or (ca.bb is not cr.bb and f.reaches(ca.bb, cr.bb)):
                    bad = (ca, cr)
        inst = "%s:records" % f.name
        if bad is None:
            chk.ok("K11-extorder", inst, sites[0][0], "records of the types the reader wipes on (%s) are written before the ones that "
                   "supply names (%s)" % (", ".join(repr(chr(x)) for x in sorted(R)), ", ".join(repr(chr(x)) for x in sorted(A))))
        else:
            chk.violation("K11-extorder", inst, bad[1], "a record of a type on which read_header forgets everything collected for the "
                          "entry (%s) can be written after a record that supplies the long name / link target (line %d): "
                          "tar2sqfs reads the entry back under its truncated name" % (
                              ", ".join(repr(chr(x)) for x in sorted(R)), bad[0].line))
    if n == 0:
        chk.broke("no writer function emits both kinds of extension records")


def _stores_param_to(f, idx, field, depth=0):
    """parameter idx of f ends up in a struct field of that name (directly or handed on)"""
    f.build()
    if idx >= len(f.params) or depth > 3:
        return False
    p = f.params[idx]
    for i in f.insts():
        if i.op == "store":
            v = i.ops[0]
            while v.is_inst and v.op in ("trunc", "zext", "sext"):
                v = v.ops[0]
            q = strip_casts(i.ops[1])
            if v is p and q.is_inst and q.op == "getelementptr" and q.field() and q.field()[1] == field:
                return True
        elif i.op == "call" and i.callee:
            for k, o in enumerate(i.ops):
                w = o
                while w.is_inst and w.op in ("trunc", "zext", "sext"):
                    w = w.ops[0]
                if w is p:
                    t = f.unit.prog.fn(i.callee, f.unit) if hasattr(f.unit, "prog") else None
                    if t is None:
                        t = _PROG.fn(i.callee, f.unit) if _PROG is not None else None
                    if t is not None and not t.decl and _stores_param_to(t, k, field, depth + 1):
                        return True
    return False


_PROG = None


def rule_list_order(chk, prog):
    """K11-listorder: repeated records that the reader collects into a linked list and the writer emits from one keep
    their order through a conversion.  For every list head of the decoded tar header that is filled by linking nodes
    (store of a node into the head field): the reader either appends (walks to the tail) or puts the node in front
    (node->next = old head); the writer walks the list from its head and lays the records out front to back or back
    to front.  'In front' + 'front to back' (or 'append' + 'back to front') reverses the order with every conversion,
    which breaks 'converting twice reproduces the first result byte for byte'."""
    # reader side: stores into pointer fields of tar_header_decoded_t
    ins = {}         # field -> [(function, kind, site)]
    for f in prog.functions():
        if f.decl or not f.unit.src.startswith("lib/tar/"):
            continue
        f.build()
        for i in f.insts():
            if i.op != "store":
                continue
            q = strip_casts(i.ops[1])
            if not (q.is_inst and q.op == "getelementptr" and q.field() and q.field()[0].startswith("struct.tar_header_decoded_t")):
                continue
            fld_ = q.field()[1]
            node = strip_casts(i.ops[0])
            if node.is_const or not (getattr(node, "ty", "") or i.x.get("vt", "")).endswith("*"):
                continue
            # node->next = <load of the same head>  somewhere before in this function: put in front
            front = False
            for j in f.insts():
                if j.op == "store" and j is not i:
                    qj = strip_casts(j.ops[1])
                    if qj.is_inst and qj.op == "getelementptr" and qj.field() and qj.field()[1] == "next" and \
                            strip_casts(qj.ops[0]) is node:
                        v = strip_casts(j.ops[0])
                        if v.is_inst and v.op == "load":
                            qq = strip_casts(v.ops[0])
                            if qq.is_inst and qq.op == "getelementptr" and qq.field() and qq.field()[1] == fld_ and \
                                    qq.field()[0].startswith("struct.tar_header_decoded_t"):
                                front = True
            if front:
                ins.setdefault(fld_, []).append((f, "in front", i))
    # appends: a helper that walks ->next to the end and stores there, given &hdr->field
    # (not present on this tree; recognised by a store through a pointer that a loop advanced to &node->next)
    # writer side: loops over a list of the same node type that fill a buffer
    n = 0
    for fld_, sites in sorted(ins.items()):
        node_ty = None
        for (f, kind, i) in sites:
            node_ty = (getattr(strip_casts(i.ops[0]), "ty", "") or i.x.get("vt", ""))
        walkers = []
        for g in prog.functions():
            if g.decl or not g.unit.src.startswith("lib/tar/src/write_header"):
                continue
            g.build()
            for (h, body) in g.loops:
                phis = [x for x in h.insts if x.op == "phi" and x.ty == node_ty]
                adv = False
                for p_ in phis:
                    for val, pred in zip(p_.ops, p_.x["inc"]):
                        if pred in body and val.is_inst and val.op == "load":
                            qv = strip_casts(val.ops[0])
                            if qv.is_inst and qv.op == "getelementptr" and qv.field() and qv.field()[1] == "next":
                                adv = True
                if not adv:
                    continue
                # output position: a pointer phi of the loop that moves by a positive / negative amount
                direction = None
                for x in h.insts:
                    if x.op == "phi" and x.ty.endswith("i8*"):
                        for val, pred in zip(x.ops, x.x["inc"]):
                            if pred not in body:
                                continue
                            sl = [y for y in backward_slice(val, phi_control=False, limit=60) if y.is_inst and y.op == "getelementptr"]
                            neg = any(any(z.is_inst and z.op == "sub" for z in backward_slice(y.ops[-1], phi_control=False, limit=10))
                                      for y in sl if len(y.ops) >= 2)
                            direction = "back to front" if neg else "front to back"
                if direction:
                    walkers.append((g, direction, h))
        if not walkers:
            continue
        # a site is named by its unit and its position among the sites of that unit (not by the name of the static function it
        # sits in: the name is the maintainer's to change)
        ordinal = {}
        for k_, (f, kind, i) in enumerate(sorted(sites, key=lambda t: (t[0].unit.src, t[2].line))):
            ordinal[id(i)] = "%s#%d" % (f.unit.src, 1 + sum(1 for (f2, _k2, i2) in sites
                                                            if f2.unit.src == f.unit.src and i2.line < i.line))
        for (f, kind, i) in sites:
            for (g, direction, h) in walkers:
                n += 1
                chk.analysed(f)
                inst = "%s:%s/%s" % (ordinal[id(i)], fld_, g.name)
                stable = (kind == "in front") == (direction == "back to front")
                if stable:
                    chk.ok("K11-listorder", inst, i, "reader links new records %s, writer lays them out %s: the order survives a conversion"
                           % (kind, direction))
                else:
                    chk.violation("K11-listorder", inst, i, "the reader links every new '%s' record %s of the list, the writer (%s) lays "
                                  "the list out %s: each tar -> image -> tar conversion reverses the order of the records, so "
                                  "converting twice does not reproduce the first result" % (fld_, kind, g.name, direction),
                                  fn="tar-reader-list-insert")
    if n == 0:
        chk.broke("no list of repeated records found that the tar reader fills and the tar writer walks")
    return n


def _nonzero_on_edge(f, v, b):
    """v is known != 0 when the function's return value is selected at block b"""
    facts = list(f.guards_at(b))
    t = b.term
    if t.op == "br" and len(t.x["succ"]) == 2 and t.x["succ"][0] is not t.x["succ"][1]:
        # the selecting edge leaves b: find which successor holds the phi / return
        for k, s_ in enumerate(t.x["succ"]):
            if any(i.op in ("phi", "ret") for i in s_.insts):
                facts.append((t.ops[0], k == 0, t))
    for (c, outcome, br) in facts:
        if not (c.is_inst and c.op == "icmp" and strip_casts(c.ops[0]) is v and c.ops[1].is_const and c.ops[1].is_int and c.ops[1].sval == 0):
            continue
        if (c.pred == "eq" and outcome is False) or (c.pred == "ne" and outcome is True) or \
                (c.pred in ("slt", "sgt") and outcome is True) or (c.pred in ("sge", "sle") and outcome is False):
            return True
    return False


def rule_unsupported(chk, prog):
    """an entry the tar writer cannot express (sockets) is skipped with a warning or aborts, never silently 'ok'"""
    f = None
    for g in prog.functions():
        if g.unit.src.startswith("bin/sqfs2tar/") and any(norm_callee(c.callee) == "write_tar_header" for c in g.calls()):
            f = g
    if f is None:
        chk.broke("sqfs2tar: no caller of write_tar_header")
        return
    chk.analysed(f)
    for c in f.calls():
        if norm_callee(c.callee) != "write_tar_header":
            continue
        hit = None
        seen = set()
        work = [(f, c, 0)]
        while work and hit is None:
            g, v, d = work.pop()
            if id(v) in seen:
                continue
            seen.add(id(v))
            for u in g.uses.get(v, []):
                if u.op == "icmp" and any(o.is_const and o.is_int and o.sval == -6 for o in u.ops):
                    hit = (g, u)
                    break
                if u.op in ("phi", "select", "sext", "zext", "trunc"):
                    work.append((g, u, d))
                elif u.op == "ret" and d < 3:
                    for call in prog.callers_of(g):
                        cf = call.bb.fn
                        cf.build()
                        work.append((cf, call, d + 1))
        if hit:
            chk.analysed(hit[0])
            chk.ok("K5-unsupported", "%s:write_tar_header" % f.name, c, "the result reaches a comparison with SQFS_ERROR_UNSUPPORTED in %s "
                   "(skip with a warning, or abort under --no-skip); every other non-zero value aborts" % hit[0].name)
        else:
            chk.violation("K5-unsupported", "%s:write_tar_header" % f.name, c, "the result of write_tar_header is never compared with "
                          "SQFS_ERROR_UNSUPPORTED: entries the tar format cannot express are either fatal or silently dropped")


def rule_skip_clean(chk, prog):
    """K11-skipclean: sqfs2tar skips an entry for which the header writer answers SQFS_ERROR_UNSUPPORTED and goes on with the
    next one.  An answer that means "skipped" must not leave half an entry behind: in every function on the way from
    write_tar_header to the stream, no path on which something was written (a call that may reach sqfs_ostream_t.append)
    ends in `return SQFS_ERROR_UNSUPPORTED`.  Otherwise the extension records of the skipped entry (PAX xattrs, GNU long
    name / long link) stay in the archive and every reader attaches them to the next member."""
    eff = Effects(prog)
    wr = eff.may_write_output()
    n = 0
    for f in prog.functions():
        if f.decl or not f.unit.src.startswith("lib/tar/src/") or "/test/" in f.unit.src:
            continue
        f.build()
        skips = []
        for (v, b) in ret_sources(f):
            v = strip_casts(v)
            if v.is_const and v.is_int and v.sval == -6:
                skips.append(b)
        if not skips:
            continue
        n += 1
        chk.analysed(f)
        inst = "%s:unsupported" % f.name
        bad = None
        for c in f.calls():
            if not eff.call_may(c, wr, direct=lambda i: slot_call(i) in (("struct.sqfs_ostream_t", "append"),)):
                continue
            seen, work = set(), list(c.bb.succs)
            while work:
                b = work.pop()
                if b in seen:
                    continue
                seen.add(b)
                work.extend(b.succs)
            if any(b in seen for b in skips):
                bad = c
                break
        if bad is None:
            chk.ok("K11-skipclean", inst, f, "the answer 'unsupported' is given before anything of the entry was written")
        else:
            chk.violation("K11-skipclean", inst, bad, "after this call wrote to the archive a path still answers SQFS_ERROR_UNSUPPORTED, "
                          "which sqfs2tar takes for 'entry skipped': the extension records written for the skipped entry (PAX "
                          "xattrs, GNU long name) are read as belonging to the next member")
    return n


def rule_path_prefix(chk, prog):
    """K2-prefix: where a path is selected by comparing it with another path over a given length (strncmp with a run-time
    length), a hit also needs the component to end there: on every way from the start of the search (the loop iteration) over
    the equal edge of the comparison to `return true`, either the byte at a length is compared with '/' or NUL, or two
    lengths are compared for equality.  Otherwise 'usr2/x' is selected by --subdir usr, and the code that cuts
    strlen(prefix) + 1 bytes off the front of every selected name writes members under mangled names."""
    n = 0
    for f in prog.functions():
        if f.decl or not f.unit.src.startswith(("bin/sqfs2tar/src/", "bin/tar2sqfs/src/")):
            continue
        f.build()
        cmps = [c for c in f.calls() if norm_callee(c.callee) == "strncmp" and len(c.ops) >= 3 and not c.ops[2].is_const]
        if not cmps:
            continue
        # blocks that decide on a component boundary
        bnd = set()
        for b in f.blocks:
            if not b.insts or b.term.op != "br" or len(b.term.x["succ"]) != 2:
                continue
            conds = [b.term.ops[0]]
            c0 = conds[0]
            if c0.is_inst and c0.op == "phi":
                conds = [v for v in c0.ops if not v.is_const]
            for cond in conds:
                if not (cond.is_inst and cond.op == "icmp" and cond.pred in ("eq", "ne")):
                    continue
                a, bb_ = cond.ops
                for x, y in ((a, bb_), (bb_, a)):
                    if y.is_const and y.is_int and y.sval in (47, 0):
                        v = x
                        while v.is_inst and v.op in ("zext", "sext", "trunc"):
                            v = v.ops[0]
                        if v.is_inst and v.op == "load" and v.ty == "i8":
                            q = strip_casts(v.ops[0])
                            if q.is_inst and q.op == "getelementptr" and any(el[0] in ("*", "[]") and not el[1].is_const
                                                                          for el in q.x["gep"]):
                                bnd.add(b)
                lens = [any(v.is_inst and v.op == "call" and norm_callee(v.callee) == "strlen"
                            for v in backward_slice(o, phi_control=False)) for o in cond.ops]
                if all(lens):
                    bnd.add(b)
        true_rets = set()
        for (v, b) in ret_sources(f):
            v = strip_casts(v)
            if v.is_const and v.is_int and v.sval != 0:
                true_rets.add(b)
        if not true_rets:
            continue

        def reach(starts, avoid):
            seen, work = set(), list(starts)
            while work:
                b = work.pop()
                if b in seen or b in avoid:
                    continue
                seen.add(b)
                work.extend(b.succs)
            return seen
        for c in cmps:
            # equal edge of the comparison
            eq_succ = []
            for u in f.uses.get(c, []):
                if u.op == "icmp" and u.ops[1].is_const and u.ops[1].is_int and u.ops[1].sval == 0:
                    for br in f.uses.get(u, []):
                        if br.op == "br" and len(br.x["succ"]) == 2:
                            eq_succ.append(br.x["succ"][0] if u.pred == "eq" else br.x["succ"][1])
                        elif br.op == "phi":
                            for br2 in f.uses.get(br, []):
                                if br2.op == "br" and len(br2.x["succ"]) == 2:
                                    eq_succ.append(br2.x["succ"][0] if u.pred == "eq" else br2.x["succ"][1])
            if not eq_succ:
                continue
            n += 1
            chk.analysed(f)
            inst = "%s:strncmp@%d" % (f.name, c.line)
            head = f.blocks[0]
            for (h, body) in f.loops:
                if c.bb in body:
                    head = h
            before = c.bb in reach([head], bnd) and c.bb not in bnd
            after = bool(reach(eq_succ, bnd) & true_rets)
            if before and after:
                chk.violation("K2-prefix", inst, c, "a path is accepted because its first bytes equal a selected path, on a way on which "
                              "neither the byte behind the prefix is compared with '/' or NUL nor the two lengths are compared: "
                              "'usr2' is taken for something below 'usr'")
            else:
                chk.ok("K2-prefix", inst, c, "a hit of the length-limited comparison is completed by a test of the component boundary")
    return n


def rule_skip_layer(chk, prog):
    """K12-skiplayer: sqfs2tar leaves out what tar cannot express (the header writer answers 'unsupported' for every file
    type outside the set its switch knows), but the hard link filter that sits underneath records every entry it hands out
    as a possible link target.  So that no later member is written as a hard link to a member that was left out, the
    entries of the unsupported types are dropped below the filter: the iterator the filter is stacked on tests the file
    type against S_IFSOCK (or against the set the writer accepts).  Decided: that such a test exists in the unit of that
    iterator; not that it does the right thing."""
    S_IFMT, S_IFSOCK = 0o170000, 0o140000
    hdr = prog.fn("write_tar_header")
    if hdr is None or hdr.decl:
        chk.broke("write_tar_header not found")
        return 0
    hdr.build()
    accepted = None
    for i in hdr.insts():
        if i.op == "switch":
            v = i.ops[0]
            while v.is_inst and v.op in ("zext", "sext", "trunc"):
                v = v.ops[0]
            if v.is_inst and v.op == "and" and any(o.is_const and o.is_int and o.uval == S_IFMT for o in v.ops):
                accepted = {(c.uval if hasattr(c, "uval") else c) for c, _b in i.x["cases"]}
    if accepted is None:
        chk.note("K12-skiplayer: the header writer does not select the member type by a switch over the file type")
        return 0
    if S_IFSOCK in accepted:
        return 0
    creates = [(f, c) for f in prog.functions() if not f.decl and f.unit.src.startswith("bin/sqfs2tar/")
               for c in f.build().calls() if norm_callee(c.callee) == "sqfs_hard_link_filter_create"]
    n = 0
    for (f, c) in creates:
        n += 1
        chk.analysed(f)
        inst = "%s:sqfs_hard_link_filter_create" % f.name
        found = None
        for g in prog.functions():
            if g.decl or g.unit.src != "bin/sqfs2tar/src/iterator.c":
                continue
            for i in g.build().insts():
                consts = []
                if i.op == "icmp":
                    consts = [o.uval for o in i.ops if o.is_const and o.is_int]
                    v = [o for o in i.ops if not o.is_const]
                elif i.op == "switch":
                    consts = [(k.uval if hasattr(k, "uval") else k) for k, _b in i.x["cases"]]
                    v = [i.ops[0]]
                else:
                    continue
                if not v:
                    continue
                x = v[0]
                while x.is_inst and x.op in ("zext", "sext", "trunc"):
                    x = x.ops[0]
                if x.is_inst and x.op == "and" and any(o.is_const and o.is_int and o.uval == S_IFMT for o in x.ops) and \
                        (S_IFSOCK in consts or set(consts) >= accepted):
                    found = i
        if found is not None:
            chk.ok("K12-skiplayer", inst, c, "the iterator under the hard link filter tests the file type against what tar cannot express")
        else:
            chk.violation("K12-skiplayer", inst, c, "the header writer refuses file types outside %s (sockets) and sqfs2tar skips such "
                          "entries, but nothing below the hard link filter drops them: the filter has recorded the skipped entry, "
                          "and a later name of the same inode is written as a hard link to a member that is not in the archive"
                          % sorted("%o" % a for a in accepted))
    return n


def rule_pax_len(chk, prog):
    """a PAX record '<len> key=value\\n' counts its own length field.  The number of digits of <len> depends on <len> itself,
    so it can only be found by iterating until the digit count no longer changes (98 + 2 = 100 needs 3 digits).  Rule: the
    length printed in front of each record is computed through a loop whose exit compares two successive estimates."""
    unit = prog.by_src.get("lib/tar/src/write_header.c")
    if unit is None:
        return
    n = 0
    for f in unit.functions.values():
        if f.decl:
            continue
        f.build()
        for c in f.calls():
            if norm_callee(c.callee) not in ("sprintf", "snprintf"):
                continue
            from .c16 import cstr
            fmt = None
            ai = None
            for k, a in enumerate(c.ops):
                s_ = cstr(f, a)
                if s_ is not None and "=" in s_ and "%" in s_:
                    fmt, ai = s_, k
            if fmt is None or not fmt.lstrip().startswith("%"):
                continue
            n += 1
            chk.analysed(f)
            lenarg = c.ops[ai + 1]
            # functions whose result flows into the length
            fix = False
            work, seenv = [lenarg], set()
            while work:
                v = work.pop()
                for x in backward_slice(v, through_loads=True, phi_control=False, limit=400):
                    if id(x) in seenv:
                        continue
                    seenv.add(id(x))
                    if x.is_inst and x.op == "call":
                        t = prog.fn(x.callee, f.unit) if x.callee else None
                        if t is None or t.decl or t.unit is not unit:
                            continue
                        t.build()
                        for (h, body) in t.loops:
                            for b in body:
                                tt = b.term
                                if tt.op == "br" and len(tt.x["succ"]) == 2 and any(s2 not in body for s2 in tt.x["succ"]):
                                    cnd = tt.ops[0]
                                    if cnd.is_inst and cnd.op == "icmp" and cnd.pred in ("eq", "ne"):
                                        a0, a1 = strip_casts(cnd.ops[0]), strip_casts(cnd.ops[1])
                                        vals = [a0, a1]
                                        # "until the new value equals the previous one": a header phi compared with the
                                        # value that is fed back into it (a call result or something computed in place)
                                        for (P_, V_) in ((a0, a1), (a1, a0)):
                                            if P_.is_inst and P_.op == "phi" and P_.bb is h and not V_.is_const:
                                                back = [strip_casts(o) for o, pr in zip(P_.ops, P_.x["inc"]) if pr in body]
                                                if back and all(o is V_ for o in back):
                                                    fix = True
            inst = "%s:record-length" % f.name
            if fix:
                chk.ok("K13-paxlen", inst, c, "the length field is found by iterating until its own digit count is stable")
            else:
                chk.violation("K13-paxlen", inst, c, "the length in front of the PAX record is not computed by a fix-point iteration over its "
                              "own digit count: at 98/99, 997..999, ... body bytes the field needs one digit more than estimated and the "
                              "record is one byte longer than announced")
    return n


def rule_layer_order(chk, prog):
    """C04: the hard-link filter remembers the first *name* of an inode and hands it out as the link target; the compat
    iterator rewrites names (--subdir / --root-becomes) but forwards read_link unchanged.  So the filter has to sit above
    the rewriting layer: its source must be the compat iterator."""
    compat_rl = None
    for f in prog.functions():
        if f.unit.src == "bin/sqfs2tar/src/iterator.c" and f.name == "read_link":
            compat_rl = f
    calls = []
    for f in prog.functions():
        if not f.unit.src.startswith("bin/sqfs2tar/"):
            continue
        for c in f.calls():
            if norm_callee(c.callee) == "sqfs_hard_link_filter_create":
                calls.append((f, c))
    if not calls:
        chk.note("sqfs2tar does not create a hard link filter")
        return
    forwards = False
    if compat_rl is not None:
        compat_rl.build()
        # pure forward: the only call is the source's read_link slot and its result is returned unchanged
        cs = [c for c in compat_rl.calls() if not (c.callee or "").startswith("llvm.")]
        # pure forward: the caller's out-pointer is handed to the source's read_link and nothing else touches it
        forwards = len(cs) == 1 and slot_call(cs[0]) == ("struct.sqfs_dir_iterator_t", "read_link") and \
            len(cs[0].ops) > 1 and strip_casts(cs[0].ops[1]) is compat_rl.params[1] and \
            not any(i.op == "store" and strip_casts(i.ops[1]) is compat_rl.params[1] for i in compat_rl.insts())
    for (f, c) in calls:
        chk.analysed(f)
        sl = backward_slice(c.ops[1], through_loads=True)
        from_compat = any(i.is_inst and i.op == "call" and norm_callee(i.callee) == "tar_compat_iterator_create" for i in sl)
        inst = "%s:sqfs_hard_link_filter_create" % f.name
        if from_compat:
            chk.ok("K12-layer", inst, c, "the hard link filter wraps the name-rewriting iterator: link targets are names of the emitted archive")
        elif not forwards:
            # the rewriting layer sits on top and translates link targets itself: it has to apply to targets every option it
            # applies to names.  Sibling agreement: the option globals read by next() (and its helpers) are all read by
            # read_link() (and its helpers)
            def opts(fn):
                out = set()
                if fn is None:
                    return out
                cl, _e, _u = prog.reachable_from([fn], stop=lambda g: g.unit is not fn.unit)
                for g in cl:
                    if g.decl:
                        continue
                    for i in g.build().insts():
                        if i.op == "load":
                            b = strip_casts(resolve_ptr(prog, i.ops[0], g.unit)[0])
                            if b.is_const and getattr(b, "gname", None):
                                gl = g.unit.globals.get(b.gname)
                                if gl is not None and not gl.get("const") and not b.gname.startswith((".str", "std")):
                                    out.add(b.gname)
                return out
            nxt = None
            for g in prog.functions():
                if g.unit.src == "bin/sqfs2tar/src/iterator.c" and g.name == "next":
                    nxt = g
            on, ol = opts(nxt), opts(compat_rl)
            missing = sorted(on - ol)
            # the layer above does not only rename, it also leaves entries out (--subdir): a loop in its next() that goes
            # back to the source's next().  The filter below has then already made a left-out name the group's file, and the
            # names that are kept become links to something the archive does not contain.
            skips = False
            if nxt is not None:
                nxt.build()
                for (h_, body_) in nxt.loops:
                    if any(slot_call(x) == ("struct.sqfs_dir_iterator_t", "next") for b_ in body_ for x in b_.insts if x.op == "call"):
                        skips = True
            if skips:
                chk.violation("K12-layer", inst, c, "the hard link filter is below the iterator that selects and renames entries: that "
                              "iterator leaves entries out (its next() loops over the source's next()), so the first name of a hard "
                              "link group can be one that is not emitted and the remaining names link to a member the archive does "
                              "not contain")
            elif nxt is not None and not missing:
                chk.ok("K12-layer", inst, c, "the rewriting layer translates link targets itself and reads every option it applies to names (%s)" % ", ".join(sorted(on)))
            else:
                chk.violation("K12-layer", inst, c, "the hard link filter is below the path-rewriting iterator; its read_link() rewrites "
                              "targets but does not look at %s, which next() applies to names: hard links point at names that are not "
                              "in the archive" % (", ".join(missing) or "the options"))
        else:
            chk.violation("K12-layer", inst, c, "the hard link filter is stacked below the path-rewriting iterator, whose read_link() "
                          "forwards the target unchanged: with --root-becomes / --subdir hard links point at names that are not in the archive")


def _load_field(i):
    if not (i.is_inst and i.op == "load"):
        return None
    p = strip_casts(i.ops[0])
    if p.is_inst and p.op == "getelementptr":
        return p.field()
    return None


def rule_sparse_default(chk, prog):
    """C04 (holes expanded): is_sparse_region() may answer "data" only with evidence: the entry has no sparse map at all, or
    an extent of the map was compared against the offset (its count field takes part in the deciding comparison).
    Everything outside the listed extents -- in front of, between and behind them -- is a hole."""
    from ..anchors import sparse_classifier
    cands = [g for g in sparse_classifier(prog) if g.ret in ("i1", "i8")]
    if not cands:
        chk.broke("no boolean function reading the sparse map's extents found in lib/tar/src/iterator.c")
        return
    f = cands[0]
    f.build()
    chk.analysed(f)
    n = 0
    for (v, b) in ret_sources(f):
        w = strip_casts(v)
        if not (w.is_const and w.is_int and w.sval == 0):
            if not w.is_const:
                chk.note("K12-sparse: non-constant result %s not decided" % w)
            continue
        n += 1
        facts = list(f.guards_at(b))
        t = b.term
        if t.op == "br" and len(t.x["succ"]) == 2:
            for k, s_ in enumerate(t.x["succ"]):
                if any(i.op in ("phi", "ret") for i in s_.insts):
                    facts.append((t.ops[0], k == 0, t))
        ev = None
        for (c, outcome, br) in facts:
            if not (c.is_inst and c.op == "icmp"):
                continue
            if c.ops[1].is_const and c.ops[1].is_null and ((c.pred == "eq") == (outcome is True)):
                x = strip_casts(c.ops[0])
                if _load_field(x) and _load_field(x)[1] == "sparse":
                    ev = "no sparse map"
            else:
                sl = backward_slice(c, through_loads=True, phi_control=False)
                if any(_load_field(i) and "sparse_map" in _load_field(i)[0] and _load_field(i)[1] == "count" for i in sl):
                    ev = "extent covers the offset"
        inst = "%s:data@%d" % (f.name, b.term.line or 0)
        if ev:
            chk.ok("K12-sparse", inst, b.term, "answers 'data' with evidence: " + ev)
        else:
            chk.violation("K12-sparse", inst, b.term, "is_sparse_region() answers 'data' on a path where the map exists and no extent was "
                          "found to cover the offset: a hole (e.g. an unterminated trailing hole) is read from the archive stream instead of zero-filled")
    if n == 0:
        chk.broke("is_sparse_region has no constant 'false' result any more")


def run(chk):
    chk.explanation = (
        "Round-trip and fix-point equality are value-level and not decided. Decided on LLVM IR: validation precedes "
        "decoding in read_header (magic/version and checksum dominate every decoder call); timestamps are clamped, not "
        "wrapped (K7 over libfstree / writer / tar2sqfs, including the clamp-before-call provider for the archive root); "
        "well-formed output: header checksum computed last, data padded to records, sqfs2tar terminates and flushes the "
        "archive before it reports success, unsupported entries are recognised; names are funnelled through "
        "canonicalize_name (decided by C18); truncated input is an error in the archive layer (T1/T2); the PAX mask is "
        "reset with the header (K9-mask). K11-skipclean: the header writer answers 'unsupported' (which sqfs2tar takes for 'skipped') only on paths on which nothing was written yet. K2-prefix: a path selected by a length-limited comparison with another path (--subdir) is accepted only together with a test of the component boundary. K13-recpad (sa/residue.py): the bytes record_to_memory takes off the stream and the bytes padd_file adds are the payload rounded up to whole 512-byte records, evaluated over every residue of the size. K12-skiplayer: entries of a type the header writer refuses are dropped below the hard link filter (which records everything it hands out as a possible link target).")
    chk.assumptions = ["field decoding of the dialects, sparse maps, link retargeting and idempotence are not decided"]
    from .c07 import validation_rule, mask_rule
    allp = load_program("all")
    validation_rule(chk, allp)
    mask_rule(chk, allp)
    run_k7(chk, allp, "K7")
    s2t = load_program("sqfs2tar")
    rule_writer_wellformed(chk, s2t)
    rule_ext_order(chk, load_program("all"))
    rule_list_order(chk, load_program("all"))
    chk.floor("K11-listorder", 1)
    rule_entry_identity(chk, load_program("sqfs2tar"))
    chk.floor("K2-identity", 2)
    from .c16 import rule_type_twins
    rule_type_twins(chk, load_program("sqfs2tar"))
    chk.floor("K12-twins", 3)
    chk.floor("K11-extorder", 1)
    rule_unsupported(chk, s2t)
    rule_skip_clean(chk, s2t)
    chk.floor("K11-skipclean", 1)
    rule_path_prefix(chk, s2t)
    chk.floor("K2-prefix", 1)
    rule_skip_layer(chk, s2t)
    from ..residue import run_recpad
    run_recpad(chk, load_program("tar2sqfs"), "K13-recpad", [("record_to_memory", 1, False)])
    run_recpad(chk, s2t, "K13-recpad", [("padd_file", 1, True)])
    chk.floor("K13-recpad", 2)
    rule_layer_order(chk, s2t)
    rule_pax_len(chk, s2t)
    from ..strtrunc import run_strtrunc
    run_strtrunc(chk, s2t, "K7-strtrunc", lambda src: src.startswith(("lib/tar/", "bin/sqfs2tar/")) and "/test/" not in src)
    rule_sparse_default(chk, allp)
    from ..tarrules import t1_rule, t2_rule
    t2s = load_program("tar2sqfs")
    t1_rule(chk, t2s)
    t2_rule(chk, t2s)
    controls(chk)
    chk.floor("K1-validate", 6)
    chk.floor("K7", 45)
    chk.floor("K11-tarhdr", 1)
    chk.floor("K1-tarend", 1)
    chk.floor("K1-tarpad", 1)
    chk.floor("K5-unsupported", 1)
    chk.floor("K12-layer", 1)
    chk.floor("K13-paxlen", 1)
    chk.floor("K7-strtrunc", 1)
    chk.floor("K12-sparse", 2)
    chk.floor("T2-short", 5)


def controls(chk):
    from ..controls import control_program
    from ..report import Check
    from ..strtrunc import run_strtrunc
    prog = control_program("c04_controls.c")
    sub = Check("C04-control", chk.tier)
    run_strtrunc(sub, prog, "K7-strtrunc", lambda src: True)
    got = {(o["rule"], o["function"]) for o in sub.obl if o["verdict"] == "VIOLATED"}
    chk.control("K7-strtrunc", ("K7-strtrunc", "ctl_emit_bad") in got, "threshold '> sizeof(field)' in front of strncpy(.., sizeof - 1)")
    chk.control("K7-strtrunc/silent", ("K7-strtrunc", "ctl_emit_good") not in got, "'>= 100' in front of the same copy must not be reported")
