"""C01 -- packing fidelity: the structural clauses (refuse-not-store-altered, union agreement, memory-error sinks,
dispatch table columns)."""
from ..ir import load_program, strip_casts, norm_callee
from ..build import AnalysisBroken
from ..util import backward_slice, const_int
from ..bounds2 import Bounder, Cap
from ..k7 import run_k7
from ..a1 import run_a1
from ..k6idx import run_k6idx
from ..deadcol import run_deadcol

ALLOCA_EXCEPTIONS = {
    ("mkdir_p", 0): "sized by the unpack-root / extract path given on the command line (trusted, bounded by ARG_MAX)",
    ("extract", 0): "sqfsdiff --extract: prefix from the command line plus one path of the image tree, which the tree "
                    "reader built from names limited to 64 KiB each and a depth limited by memory; at most a few MiB",
}


def rule_alloca(chk, prog):
    """C01-c: no input-sized stack allocation"""
    n = 0
    for f in prog.functions():
        if "/test/" in f.unit.src or f.unit.src.startswith("extras"):
            continue
        k = 0
        for i in f.insts():
            if i.op == "alloca" and i.ops and not i.ops[0].is_const:
                n += 1
                chk.analysed(f)
                inst = "%s:alloca#%d" % (f.name, k)
                B = Bounder(prog, f)
                if B.bounded(i.ops[0], i, Cap(const=65536, desc="64 KiB")):
                    chk.ok("K6-alloca", inst, i, "stack allocation bounded by a constant")
                elif (f.name, k) in ALLOCA_EXCEPTIONS:
                    chk.exception("K6-alloca", inst, i, ALLOCA_EXCEPTIONS[(f.name, k)])
                else:
                    chk.violation("K6-alloca", inst, i, "the size of this alloca() comes from the input and has no constant upper bound: "
                                  "a large file / long list overflows the stack (the packing run must be free of memory errors)")
                k += 1
    return n


def rule_byte_order(chk, prog, everywhere=False):
    """K2-byteorder: sibling lists are kept in strcmp order, i.e. bytes compared as *unsigned* char.  Code that orders or
    prunes by looking at name bytes itself must compare them unsigned as well: an ordered comparison (<, >, <=, >=) of
    two bytes that were sign-extended (plain char on this target) disagrees with strcmp for bytes >= 0x80, so a lookup
    that stops 'past the place where the name would be' misses names that start with such a byte."""
    n = 0
    for f in prog.functions():
        if f.decl or not (everywhere or f.unit.src.startswith(("lib/fstree/src/", "lib/common/src/dir_tree", "bin/gensquashfs/src/"))):
            continue
        f.build()
        for i in f.insts():
            if i.op != "icmp" or i.pred not in ("slt", "sgt", "sle", "sge", "ult", "ugt", "ule", "uge"):
                continue
            sides = []
            for o in i.ops:
                x = o
                ext = None
                while x.is_inst and x.op in ("sext", "zext"):
                    ext = x.op
                    x = x.ops[0]
                if x.is_inst and x.op == "load" and x.ty == "i8":
                    sides.append(ext)
                else:
                    sides.append(False)
            if sides[0] is False or sides[1] is False:
                continue          # not a comparison of two loaded bytes
            n += 1
            chk.analysed(f)
            inst = "%s:bytes@%d" % (f.name, i.line)
            signed = i.pred.startswith("s") and "sext" in sides
            if signed:
                chk.violation("K2-byteorder", inst, i, "two name bytes are ordered as signed char: for bytes >= 0x80 that is the "
                              "opposite of the strcmp order the sibling list is kept in, so names starting with such a byte are "
                              "skipped or the walk stops before reaching them")
            else:
                chk.ok("K2-byteorder", inst, i, "bytes are ordered unsigned, as strcmp does")
    return n


def rule_highwater(chk, prog):
    """K13-highwater: the number of valid block-size words of a file inode is a high-water mark.  Blocks of one file do
    not complete in index order (a sparse or all-zero block skips the I/O queue), so the store that records 'entries up
    to index i are in use' next to  extra[i] = size  must not lower the mark: it is guarded by a comparison of the new
    value with the current one."""
    n = 0
    for f in prog.functions():
        if f.decl or not f.unit.src.startswith("lib/sqfs/src/block_processor/"):
            continue
        f.build()
        idx_stores = []
        for i in f.insts():
            if i.op != "store":
                continue
            q = strip_casts(i.ops[1])
            if q.is_inst and q.op == "getelementptr" and any(el[0] in ("[]", "*") and not (el[1].is_const) for el in q.x["gep"]):
                chain, x = [], q
                while x.is_inst and x.op in ("getelementptr", "bitcast"):
                    if x.op == "getelementptr":
                        chain += [fl[1] for fl in (x.fields() or [])]
                    x = x.ops[0]
                if "extra" in chain:
                    idx_stores.append(i)
        if not idx_stores:
            continue
        for i in f.insts():
            if i.op != "store":
                continue
            q = strip_casts(i.ops[1])
            if not (q.is_inst and q.op == "getelementptr" and q.field() and q.field()[1] == "payload_bytes_used"):
                continue
            if i.ops[0].is_const:
                continue
            n += 1
            chk.analysed(f)
            inst = "%s:payload_bytes_used@%d" % (f.name, i.line)
            ok = False
            for (cond, outcome, br) in f.guards_at(i.bb):
                if cond.is_inst and cond.op == "icmp" and cond.pred in ("ult", "ule", "ugt", "uge", "slt", "sle", "sgt", "sge"):
                    sl = [x for o in cond.ops for x in [o] + list(backward_slice(o, phi_control=False, limit=20))]
                    if any(x.is_inst and x.op == "load" and strip_casts(x.ops[0]).is_inst and strip_casts(x.ops[0]).op == "getelementptr"
                           and strip_casts(x.ops[0]).field() and strip_casts(x.ops[0]).field()[1] == "payload_bytes_used" for x in sl):
                        ok = True
            if ok:
                chk.ok("K13-highwater", inst, i, "the mark is only moved when the new value is compared with the current one")
            else:
                chk.violation("K13-highwater", inst, i, "the count of valid block-size words is overwritten without looking at its "
                              "current value: a block that completes out of order (an all-zero tail end overtakes the file's "
                              "data blocks) lowers it and the inode is written with block sizes missing")
    return n


def run(chk):
    chk.explanation = (
        "Fidelity as a whole (tree in = tree out, byte-identical contents) is value-level and not decided. Decided, on "
        "LLVM IR of all units: (a) K7 'refused, not stored altered': every implicit truncation stored into an on-disk or "
        "image-visible field on the writer path is range-proven, covered by a re-verified guard provider, or a reasoned "
        "exception; (b) A1 tagged-union agreement: under every case/compare of an inode's type only the union members of "
        "that type are accessed (217 accesses); (c) K6-alloca: no input-sized stack allocation; (d) K6-index: stores "
        "through caller-provided tables indexed by a growing counter are bounded; (e) K2-column: every non-uniform column "
        "of a constant keyword/handler table is read by some code; (f) K14-cmp: every comparator / equality function registered "
        "with qsort, the rbtree or the hash table (hard-link (device, inode) key, directory cache, xattr block dedup, string "
        "table) is evaluated over all 3^k orderings of its key parts: reflexive, antisymmetric, every part relevant, "
        "lexicographic -- distinct keys are never merged; (g) K2-exact: length-limited comparisons of node names check the "
        "terminator. K13-highwater: the count of valid block-size words of a file inode is never lowered. E4/E7 of C13 over the gensquashfs closure: a write or allocation failure is not forgotten (exit 0 with an unreadable image). K12-packedref (sa/packedref.py): a metadata reference ((block start << 16) | offset) is copied, compared or taken apart, never an operand of add/sub/mul. K12-slotnum (with C03): where slots of the inode table are rewritten, the numbers of the nodes that moved are stored before a number is read as a slot again.")
    chk.assumptions = ["hard-link grouping, xattr round trip and data contents are not decided"]
    prog = load_program("all")
    run_k7(chk, prog, "K7")
    run_a1(chk, prog, "A1")
    from .c07 import retag_rule
    retag_rule(chk, prog)           # the tag of an existing node's union is not changed under it
    chk.floor("A1-retag", 2)
    rule_alloca(chk, prog)
    run_k6idx(chk, prog, "K6-index")
    run_deadcol(chk, prog, "K2-column")
    # keys of lookup / dedup structures discriminate: distinct inodes, xattr blocks, names are never merged
    from .c11 import rule_exact_lookup
    from ..cmpcheck import check_comparator, registered_comparators
    rule_exact_lookup(chk, prog)
    for (t, li, ri, eq) in registered_comparators(prog):
        if t.unit.src.startswith("bin/rdsquashfs/"):
            continue        # unpack order of rdsquashfs: performance only
        check_comparator(chk, prog, t, li, ri, "K14-cmp", equals=eq)
    from .c08 import rule_g_truncate, rule_i_every_block
    rule_g_truncate(chk, load_program("gensquashfs"))
    rule_i_every_block(chk, load_program("gensquashfs"))
    rule_highwater(chk, load_program("gensquashfs"))
    rule_byte_order(chk, prog)
    from .c03 import rule_file_nlink, rule_not_full, rule_slot_number
    rule_file_nlink(chk, load_program("gensquashfs"))
    rule_not_full(chk, load_program("gensquashfs"))
    # hard links: the table that is rewritten to put link targets in front of the directory and the numbers read as slots
    rule_slot_number(chk, load_program("gensquashfs"))
    chk.floor("K12-slotnum", 2)
    from ..controls import control_program
    from ..report import Check
    sub = Check("C01-control", chk.tier)
    rule_byte_order(sub, control_program("c01_controls.c"), everywhere=True)
    got = {(o["rule"], o["function"]) for o in sub.obl if o["verdict"] == "VIOLATED"}
    chk.control("K2-byteorder", ("K2-byteorder", "ctl_signed_bytes") in got, "two plain-char bytes ordered with <")
    chk.control("K2-byteorder/silent", ("K2-byteorder", "ctl_unsigned_bytes") not in got, "unsigned byte comparison must not be reported")
    chk.floor("K13-highwater", 1)
    # the metadata writer's block buffer and its fill level (a writer-side buffer bound: what runs over the 8 KiB block
    # lands in the writer's own bookkeeping and is then written out as metadata)
    from ..slack import run_fill
    run_fill(chk, load_program("gensquashfs"), only_structs={"struct.sqfs_meta_writer_t"})
    chk.floor("K6-fill", 3)
    from .c16 import rule_type_twins
    rule_type_twins(chk, load_program("gensquashfs"))
    rule_type_twins(chk, load_program("rdsquashfs"))
    chk.floor("K12-twins", 5)
    # memory errors in the packing run: the block processor's read-back buffers (K6 with per-member allocation sites)
    from ..k6 import run_k6
    from .c08 import BP_EXCEPTIONS
    run_k6(chk, load_program("gensquashfs"), {"lib/sqfs/src/block_processor/block_processor.c"}, BP_EXCEPTIONS, "K6")
    from ..capagree import run_capagree
    run_capagree(chk, load_program("gensquashfs"))
    chk.floor("K6-capagree", 3)
    # references into metadata tables are packed coordinates: formed from the writer's position, never computed with
    from ..packedref import run_packedref
    _, ncar = run_packedref(chk, load_program("gensquashfs"))
    if ncar < 3:
        chk.broke("K12-packedref: only %d struct members that carry packed metadata references found (inode_ref, dir_ref, "
                  "start_ref were confirmed by hand)" % ncar)
    chk.floor("K12-packedref", 6)
    from .c10 import same_bound_rule
    same_bound_rule(chk, load_program("rdsquashfs"))
    # a write error that is lost lets the packer exit 0 with an image that does not read back: the error-flow rules of
    # C13 that decide 'a failure is not forgotten' are necessary conditions here as well
    from .c13 import rule_e4, rule_e7, tristate_functions
    from ..errflow import ErrModel
    gp = load_program("gensquashfs")
    em = ErrModel(gp)
    rule_e4(chk, gp, em, "gensquashfs", set())
    rule_e7(chk, gp, em, "gensquashfs", set())
    chk.floor("E4", 30)
    chk.floor("K13-truncate", 1)
    chk.floor("K7", 45)
    chk.floor("A1", 150)
    chk.floor("K6-alloca", 2)
    chk.floor("K6-index", 3)
    chk.floor("K2-column", 30)
    chk.floor("K2-exact", 1)
    chk.floor("K14-cmp", 5)
