"""C06 -- unpacking writes only inside the unpack root (K1 name gate, source-sanitiser-sink, K12 flags)."""
from ..ir import load_program, strip_casts, norm_callee, ExternFn
from ..build import AnalysisBroken
from ..util import resolve_ptr, backward_slice, const_int
from ..effects import Effects, slot_call, fields_in_slice, success_points, reachable_after
from ..taint import origins

TOOL = "rdsquashfs"
NODE = "struct.sqfs_tree_node_t"

# file-system mutating primitives: name -> index of the path argument
M_PRIMS = {
    "mkdir": 0, "mkdirat": 1, "symlink": 1, "symlinkat": 2, "mknod": 0, "mknodat": 1, "__xmknod": 1,
    "open": 0, "open64": 0, "openat": 1, "openat64": 1, "creat": 0, "creat64": 0,
    "link": 1, "linkat": 3, "rename": 1, "renameat": 3, "unlink": 0, "unlinkat": 1, "rmdir": 0,
    "truncate": 0, "truncate64": 0,
    "chmod": 0, "fchmodat": 1, "chown": 0, "lchown": 0, "fchownat": 1, "utimensat": 1, "utimes": 0, "utime": 0,
    "lutimes": 0, "setxattr": 0, "lsetxattr": 0, "fopen": 0, "fopen64": 0, "freopen": 0,
    # project entry points that create/overwrite files by path
    "sqfs_ostream_open_file": 1, "sqfs_file_open": 1, "sqfs_native_file_open": 1, "mkdir_p": 0,
}
FOLLOWING_VARIANTS = {"chmod", "chown", "utimes", "utime", "setxattr", "truncate", "truncate64"}
# object-creating / renaming calls for which the unpacker has no reviewed discipline.  Its safety argument is that every
# path it later writes through was created by itself, as the type it expects, with O_EXCL / mkdir / mknod / symlink;
# a second way to make names (link, rename, ...) lets the image decide what a later open() or chmod() lands on
UNREVIEWED_CREATORS = {"link", "linkat", "rename", "renameat", "renameat2", "creat", "creat64", "mkfifo", "mkfifoat", "symlinkat",
                       "mkdirat", "mknodat", "openat", "openat64", "fopen", "fopen64", "freopen", "unlink", "unlinkat", "rmdir",
                       "remove", "lchown", "lutimes", "futimesat", "removexattr", "lremovexattr", "mount", "chroot"}
O_CREAT, O_EXCL, O_TRUNC, O_WRONLY, O_RDWR = 0o100, 0o200, 0o1000, 1, 2
AT_SYMLINK_NOFOLLOW = 0x100
SQFS_FILE_OPEN_READ_ONLY = 0      # mode mask 0x03: 0 = read only
ALLOWED_FIELD_ORIGINS = {
    ("struct.options_t", "unpack_root"): "command line: the unpack root chosen by the user",
    ("struct.options_t", "image_name"): "command line: the image, opened read-only",
}


def is_mutating_call(c):
    """(path arg index) for a call that may create/modify a file-system object by path"""
    name = norm_callee(c.callee)
    if name not in M_PRIMS:
        return None
    idx = M_PRIMS[name]
    if name in ("open", "open64", "openat", "openat64"):
        fl = const_int(c.ops[idx + 1]) if len(c.ops) > idx + 1 else None
        if fl is not None and not (fl & (O_CREAT | O_TRUNC | O_WRONLY | O_RDWR)):
            return None
    if name in ("sqfs_file_open", "sqfs_native_file_open"):
        fl = const_int(c.ops[2]) if len(c.ops) > 2 else None
        if fl is not None and (fl & 0x03) == SQFS_FILE_OPEN_READ_ONLY:
            return None
    if name in ("fopen", "fopen64"):
        m = c.ops[1]
        return idx
    return idx


class PathSinks:
    """which (function, param) flow into the path argument of a mutating call; deferred sinks through struct fields"""

    def __init__(self, prog):
        self.prog = prog
        self.sites = []          # (call, path arg index)
        for f in prog.functions():
            for c in f.calls():
                k = is_mutating_call(c)
                if k is not None and k < len(c.ops):
                    self.sites.append((c, k))
        self.param_sink = {}     # (fn, idx) -> True
        self.field_sink = set()  # (struct, field) whose content reaches a path argument
        changed = True
        rounds = 0
        while changed and rounds < 8:
            changed = False
            rounds += 1
            for (c, k) in self.all_sink_uses():
                v = strip_casts(c.ops[k])
                for o in origins(prog, v, c.fn, through_params=False):
                    if o.kind == "entry-param":
                        a = [p for p in c.fn.params if (p.name or p.idx) == o.b]
                        if a and (c.fn, a[0].idx) not in self.param_sink:
                            self.param_sink[(c.fn, a[0].idx)] = True
                            changed = True
                    elif o.kind == "field" and (o.a, o.b) not in self.field_sink and \
                            (o.a, o.b) not in ALLOWED_FIELD_ORIGINS and not o.a.startswith(NODE):
                        self.field_sink.add((o.a, o.b))
                        changed = True

    def all_sink_uses(self):
        out = list(self.sites)
        for (f, idx) in list(self.param_sink):
            for c in self.prog.callers_of(f):
                if idx < len(c.ops):
                    out.append((c, idx))
        # stores into deferred sink fields: (store inst, operand 0)
        for f in self.prog.functions():
            for i in f.insts():
                if i.op == "store":
                    p = strip_casts(i.ops[1])
                    if p.is_inst and p.op == "getelementptr" and p.field() in self.field_sink:
                        out.append((i, 0))
        return out

    def reaches_M(self):
        eff = Effects(self.prog)
        prims = set(M_PRIMS)
        return eff.closure("M", lambda i: is_mutating_call(i) is not None)


def name_gate_rule(chk, prog, sinks, mset):
    """C06-a: every recursive walk over tree nodes that reaches M is gated by is_filename_sane(n->name)"""
    walks = []
    for f in prog.functions():
        if f not in mset and not any(norm_callee(c.callee) and (prog.fn(norm_callee(c.callee), f.unit), 0) for c in []):
            pass
        rec = [c for c in f.calls() if prog.fn(c.callee or "", f.unit) is f]
        if not rec:
            continue
        node_params = [p for p in f.params if p.ty.startswith("%" + NODE)]
        if not node_params:
            continue
        # does it (transitively) reach M or feed a deferred sink?
        feeds = f in mset or any(i.op == "store" and strip_casts(i.ops[1]).is_inst and
                                 strip_casts(i.ops[1]).op == "getelementptr" and
                                 strip_casts(i.ops[1]).field() in sinks.field_sink for i in f.insts())
        if not feeds:
            # callee that stores into a deferred sink field
            for c in f.calls():
                g = prog.fn(c.callee or "", f.unit)
                if g is not None and not g.decl and g is not f:
                    for i in g.build().insts():
                        if i.op == "store":
                            p = strip_casts(i.ops[1])
                            if p.is_inst and p.op == "getelementptr" and p.field() in sinks.field_sink:
                                feeds = True
        if not feeds:
            continue
        walks.append((f, node_params[0], rec))
    for (f, node, rec) in walks:
        chk.analysed(f)
        gates = []
        for c in f.calls("is_filename_sane"):
            # argument must be node->name of the function's own node parameter
            fl = [x for x in backward_slice(c.ops[0], through_loads=True) if x is node]
            names = fields_in_slice(c.ops[0])
            a = strip_casts(c.ops[0])
            isname = False
            for x in backward_slice(c.ops[0]):
                if x.is_inst and x.op == "getelementptr" and x.fields() and x.fields()[-1][1] == "name" and \
                        resolve_ptr(prog, x, f.unit)[0] is node:
                    isname = True
            if isname:
                gates.append(c)
        critical = list(rec)
        for c in f.calls():
            if c in rec:
                continue
            g = prog.fn(c.callee or "", f.unit) if c.callee else None
            if is_mutating_call(c) is not None or (g is not None and not g.decl and g in mset):
                critical.append(c)
            elif g is not None and not g.decl:
                # feeds a deferred sink
                for i in g.build().insts():
                    if i.op == "store":
                        p = strip_casts(i.ops[1])
                        if p.is_inst and p.op == "getelementptr" and p.field() in sinks.field_sink:
                            if c not in critical:
                                critical.append(c)
        for c in critical:
            ok = False
            for gcall in gates:
                for cond, outcome, br in f.guards_at(c.bb):
                    # cond: is_filename_sane(...) result tested non-zero
                    sl = backward_slice(cond)
                    if gcall in sl:
                        pol = True
                        v = cond
                        if v.is_inst and v.op == "icmp" and v.pred in ("eq", "ne") and v.ops[1].is_const and \
                                v.ops[1].is_int and v.ops[1].sval == 0:
                            pol = (v.pred == "ne")
                        if outcome == pol:
                            ok = True
            what = "recursive call" if c in rec else "call to %s" % (norm_callee(c.callee) or "indirect")
            inst = "%s:%s@%s" % (f.name, norm_callee(c.callee) or "indirect", "rec" if c in rec else "M")
            if ok:
                chk.ok("K1-gate", inst, c, "%s is dominated by the accepting edge of is_filename_sane(%s->name)" % (
                    what, node.name or "node"))
            else:
                chk.violation("K1-gate", inst, c,
                              "%s in the tree walk %s is reachable without passing is_filename_sane() on this node's "
                              "name: an entry named '..', '.' or containing '/' would be created/visited" % (what, f.name))
    return walks


def sanitiser_rule(chk, prog, sinks):
    """C06-b: image-derived paths reach the OS only through sqfs_tree_node_get_path + canonicalize_name"""
    n = 0
    for (c, k) in sinks.all_sink_uses():
        f = c.fn
        v = c.ops[k]
        what = norm_callee(c.callee) if c.op == "call" else "store to deferred path field"
        for o in origins(prog, v, f, through_params=False):
            inst = "%s:%s<-%s" % (f.name, what, o.key()[0] + ":" + (o.key()[1] if o.kind != "outparam" else o.a))
            if o.kind == "outparam" and o.a == "sqfs_tree_node_get_path":
                n += 1
                alloca = o.b
                # a canonicalize_name call on a load of the same local must dominate the sink
                ok = checked = False
                for cn in f.calls("canonicalize_name"):
                    a = strip_casts(cn.ops[0])
                    if a.is_inst and a.op == "load" and strip_casts(a.ops[0]) is alloca and f.inst_dominates(cn, c) \
                            and f.inst_dominates(o.site, cn):
                        ok = True
                        # result checked or asserted?
                        for u in f.uses.get(cn, []):
                            if u.op == "icmp":
                                checked = True
                if ok:
                    chk.ok("K1-sanitise", inst, c, "path from sqfs_tree_node_get_path passes canonicalize_name before "
                           "it reaches %s%s" % (what, " (result checked)" if checked else ""))
                else:
                    chk.violation("K1-sanitise", inst, c,
                                  "the absolute path produced by sqfs_tree_node_get_path reaches %s without "
                                  "canonicalize_name on that buffer: the OS would be given a path starting with '/'" % what)
            elif o.kind == "const":
                continue
            elif o.kind == "entry-param":
                continue     # judged at the callers (param_sink propagation)
            elif o.kind == "field":
                key = (o.a, o.b)
                if key in ALLOWED_FIELD_ORIGINS:
                    n += 1
                    chk.ok("K1-sanitise", inst, c, ALLOWED_FIELD_ORIGINS[key])
                elif key in sinks.field_sink:
                    n += 1
                    chk.ok("K1-sanitise", inst, c, "deferred path list: its stores are checked as sinks")
                else:
                    n += 1
                    chk.violation("K1-sanitise", inst, c,
                                  "a string taken from %s.%s (image-derived or unclassified) is used as a file-system "
                                  "path by %s without the get_path + canonicalize_name funnel" % (o.a, o.b, what))
            elif o.kind == "outparam":
                n += 1
                if _funnel_helper(prog, f, o):
                    chk.ok("K1-sanitise", inst, c, "path from %s, a helper that hands out what sqfs_tree_node_get_path produced after "
                           "canonicalize_name on the same buffer, on every success return" % o.a)
                else:
                    chk.violation("K1-sanitise", inst, c, "path produced by %s reaches %s outside the sanitising funnel" % (o.a, what))
            elif o.kind in ("call", "global", "deref-param", "other", "local-buffer", "uninit"):
                n += 1
                if o.kind == "call" and o.a in ("strdup", "malloc", "calloc"):
                    chk.ok("K1-sanitise", inst, c, "freshly built buffer", nontrivial=False)
                else:
                    chk.violation("K1-sanitise", inst, c, "path of unclassified provenance (%r) reaches %s" % (o, what))
    return n


def _funnel_helper(prog, f, o):
    """the out-parameter was filled by a function of the program that passes it straight to sqfs_tree_node_get_path and
    reaches a success return only behind canonicalize_name on what it points to"""
    call = o.site
    if call is None or not getattr(call, "callee", None):
        return False
    h = prog.fn(call.callee, f.unit)
    if h is None or h.decl:
        return False
    ks = [k for k, a in enumerate(call.ops) if strip_casts(a) is o.b]
    if len(ks) != 1 or ks[0] >= len(h.params):
        return False
    par = h.build().params[ks[0]]
    gets = [c for c in h.calls("sqfs_tree_node_get_path") if len(c.ops) >= 2 and strip_casts(c.ops[1]) is par]
    if not gets:
        return False
    cans = [c for c in h.calls("canonicalize_name") if strip_casts(c.ops[0]).is_inst and strip_casts(c.ops[0]).op == "load" and
            strip_casts(strip_casts(c.ops[0]).ops[0]) is par]
    if not cans:
        return False
    from ..errflow import ret_sources
    zero = [b for (v, b) in ret_sources(h) if strip_casts(v).is_const and strip_casts(v).is_int and strip_casts(v).sval == 0]
    nonconst = [b for (v, b) in ret_sources(h) if not strip_casts(v).is_const]
    if not zero or nonconst:
        return False
    for b in zero:
        if not any(h.dominates(cn.bb, b) and any(h.inst_dominates(g, cn) for g in gets) for cn in cans):
            return False
    # nothing else writes through the parameter
    for i in h.insts():
        if i.op == "store" and strip_casts(i.ops[1]) is par:
            return False
    return True


def excl_fatal_rule(chk, prog):
    """K12-exclfatal: exclusive creation is exclusive.  open(O_CREAT|O_EXCL) and mknod refuse a name that exists;
    that refusal is what keeps the unpacker from writing through an object it did not make itself (a symlink that is already
    there, whoever put it there).  On the edge where one of them failed, no path reaches `return 0`: the entry is not
    carried on with as if it had been created (mkdir is the reviewed exception: an existing directory is entered)."""
    from .c13 import _e7_walk, _e7_zero_known
    n = 0
    for f in prog.functions():
        if f.decl or not f.unit.src.startswith("bin/rdsquashfs/"):
            continue
        f.build()
        for c in f.calls():
            name = norm_callee(c.callee)
            if name in ("open", "open64"):
                fl = const_int(c.ops[1])
                if fl is None or not (fl & O_CREAT):
                    continue
            elif name != "mknod":
                # symlink() is left out: the later passes never go through a symlink entry (lchown-style calls, fchmodat
                # only for non-symlinks), so an existing object under a symlink's name is re-owned in place at worst
                continue
            n += 1
            chk.analysed(f)
            inst = "%s:%s@%d" % (f.name, name, c.line)
            edges = []
            for u in f.uses.get(c, []):
                if u.op != "icmp" or not (u.ops[1].is_const and u.ops[1].is_int and u.ops[1].sval == 0):
                    continue
                for br in f.uses.get(u, []):
                    if br.op != "br" or len(br.x["succ"]) != 2:
                        continue
                    succ = {"slt": br.x["succ"][0], "sge": br.x["succ"][1], "ne": br.x["succ"][0], "eq": br.x["succ"][1]}.get(u.pred)
                    if succ is not None:
                        edges.append((br, succ))
            if not edges:
                chk.violation("K12-exclfatal", inst, c, "the result of %s is not tested: a name that already exists is carried on "
                              "with as if the unpacker had created it" % name)
                continue
            bad = None
            for br, succ in edges:
                zero = _e7_zero_known(f, br.bb) - {id(c)}
                for (v, r, _p) in _e7_walk(prog, f, br, succ, [], zero, {id(c)}):
                    if (v.is_const and v.is_int and v.sval == 0) or id(v) in zero:
                        bad = r
                        break
                if bad is not None:
                    break
            if bad is None:
                chk.ok("K12-exclfatal", inst, c, "no path from the failure edge of the exclusive creation returns success")
            else:
                chk.violation("K12-exclfatal", inst, bad, "after %s() failed (line %d) a path returns 0: an object that was already "
                              "there under this name (e.g. a symlink leading out of the unpack root) is taken for the one the "
                              "unpacker made, and the later passes open, chmod or chown it by path" % (name, c.line))
    return n


def flags_rule(chk, prog, mset):
    """C06-c hardening flags at the creation / attribute sites of the rdsquashfs sources"""
    for f in prog.functions():
        if not f.unit.src.startswith("bin/rdsquashfs/"):
            continue
        for c in f.calls():
            name = norm_callee(c.callee)
            if name in ("open", "open64"):
                fl = const_int(c.ops[1])
                if fl is None:
                    chk.violation("K12-flags", "%s:open" % f.name, c, "open() with non-constant flags in the unpacker")
                elif fl & O_CREAT:
                    if (fl & O_EXCL) and not (fl & O_TRUNC):
                        chk.ok("K12-flags", "%s:open" % f.name, c, "files are created with O_CREAT|O_EXCL and without O_TRUNC")
                    else:
                        chk.violation("K12-flags", "%s:open" % f.name, c,
                                      "file creation without O_EXCL (or with O_TRUNC): an existing object or a symlink "
                                      "placed by an earlier entry would be followed/overwritten")
            elif name in ("fchownat", "utimensat"):
                fl = const_int(c.ops[-1])
                if fl is not None and (fl & AT_SYMLINK_NOFOLLOW):
                    chk.ok("K12-flags", "%s:%s" % (f.name, name), c, "AT_SYMLINK_NOFOLLOW set")
                else:
                    chk.violation("K12-flags", "%s:%s" % (f.name, name), c,
                                  "%s without AT_SYMLINK_NOFOLLOW follows a symlink out of the unpack root" % name)
            elif name == "fchmodat":
                ok = False
                for cond, outcome, br in f.guards_at(c.bb):
                    if cond.is_inst and cond.op == "icmp" and cond.pred in ("eq", "ne"):
                        k = [o for o in cond.ops if o.is_const and o.is_int and o.uval == 0o120000]
                        other = [o for o in cond.ops if not o.is_const]
                        msk = False
                        if other and other[0].is_inst and other[0].op == "and":
                            a = other[0]
                            m = [y for y in a.ops if y.is_const and y.is_int and y.uval == 0o170000]
                            v = [y for y in a.ops if not y.is_const]
                            if m and v and _is_raw_inode_mode(v[0]):
                                msk = True
                        if k and msk and outcome == (cond.pred == "ne"):
                            ok = True
                if ok:
                    chk.ok("K12-flags", "%s:fchmodat" % f.name, c, "only reached where the inode is not a symlink")
                else:
                    chk.violation("K12-flags", "%s:fchmodat" % f.name, c,
                                  "fchmodat is not guarded by !S_ISLNK(mode): chmod through a symlink leaves the root")
            elif name in FOLLOWING_VARIANTS:
                chk.violation("K12-flags", "%s:%s" % (f.name, name), c,
                              "%s follows symlinks; the unpacker must use the non-following variant" % name)
            elif name in UNREVIEWED_CREATORS:
                chk.violation("K12-flags", "%s:%s" % (f.name, name), c,
                              "%s creates, renames or removes names under the unpack root outside the reviewed set (open with "
                              "O_CREAT|O_EXCL, mkdir, mknod, symlink): the argument that every path written later was created by "
                              "the unpacker itself, as the type it expects, no longer holds (e.g. link() gives a symlink a second "
                              "name that a later open() follows)" % name)
            elif name == "lsetxattr":
                chk.ok("K12-flags", "%s:lsetxattr" % f.name, c, "xattrs are set without following symlinks")


def _is_raw_inode_mode(v):
    """v is the inode's mode field as loaded (only widened/narrowed above 16 bits), not a masked copy"""
    for _ in range(6):
        if v.is_inst and v.op in ("zext", "sext"):
            v = v.ops[0]
            continue
        if v.is_inst and v.op == "trunc" and v.ty in ("i16", "i32"):
            v = v.ops[0]
            continue
        break
    if v.is_inst and v.op == "load":
        p = strip_casts(v.ops[0])
        if p.is_inst and p.op == "getelementptr":
            fl = p.fields()
            return bool(fl) and fl[-1][1] == "mode" and fl[-1][0].startswith("struct.sqfs_inode_t")
    return False


STR_COMPARES = {"strcmp", "strcasecmp", "strncmp", "strncasecmp", "strcoll", "memcmp", "strverscmp"}


def name_comparisons(prog, f):
    """string-comparison externals applied to two tree-node names in f"""
    out = []
    for c in f.calls():
        n = norm_callee(c.callee)
        if n not in STR_COMPARES or len(c.ops) < 2:
            continue
        names = 0
        for a in c.ops[:2]:
            if any(x.is_inst and x.op == "getelementptr" and x.fields() and x.fields()[-1][1] == "name" and
                   x.fields()[-1][0].startswith(NODE) for x in backward_slice(a)):
                names += 1
        if names == 2:
            out.append((n, c))
    return out


def sort_agrees_with_dupcheck(chk, prog, dups):
    """the duplicate test compares *adjacent* entries, so it is only complete if the sort that precedes it orders
    by the very comparison whose equality it tests"""
    for F in dups:
        eq = {n for (n, c) in name_comparisons(prog, F)}
        reach, _, _ = prog.reachable_from([F], stop=lambda g: g.unit is not F.unit)
        n = 0
        for g in reach:
            if g is F:
                continue
            for (nm, c) in name_comparisons(prog, g):
                n += 1
                inst = "%s:%s" % (g.name, nm)
                if nm in eq:
                    chk.ok("K2-sortkey", inst, c, "the sort orders sibling names with %s, the comparison whose equality the "
                           "duplicate test in %s checks" % (nm, F.name))
                else:
                    chk.violation("K2-sortkey", inst, c,
                                  "siblings are ordered with %s but %s tests adjacent entries with %s: equal names need not "
                                  "be adjacent, so a symlink and a same-named directory can both pass the duplicate check"
                                  % (nm, F.name, "/".join(sorted(eq)) or "nothing"))
        if n == 0:
            chk.violation("K2-sortkey", "%s:no-sort" % F.name, F, "no ordering comparison of sibling names precedes the "
                          "adjacent-duplicate test")
        # the name is the *only* sort key: the decision which element comes first depends on the name comparison and
        # on nothing else of the two nodes (a leading key such as 'directories last' separates equal names)
        def other_node_fields(vals):
            out = []
            for x in vals:
                if x.is_inst and x.op == "load":
                    q = strip_casts(x.ops[0])
                    if q.is_inst and q.op == "getelementptr" and q.fields():
                        s_, n_ = q.fields()[-1]
                        if (s_.startswith(NODE) and n_ not in ("name", "next")) or s_.startswith("struct.sqfs_inode"):
                            out.append((x, n_))
            return out
        for g in reach:
            if g is F:
                continue
            g.build()
            cmps = [c for (_nm, c) in name_comparisons(prog, g)]
            helpers = []
            for c in g.calls():
                t = prog.fn(c.callee or "", g.unit) if c.callee else None
                if t is not None and t is not g and not t.decl and t.unit is g.unit and name_comparisons(prog, t):
                    helpers.append((c, t))
            for b in g.blocks:
                t_ = b.term
                if t_.op != "br" or len(t_.x["succ"]) != 2:
                    continue
                sl = list(backward_slice(t_.ops[0], phi_control=False, limit=200))
                uses_cmp = any(x is c for x in sl for c in cmps) or any(x is c for x in sl for (c, _t) in helpers)
                if not uses_cmp:
                    continue
                inst = "%s:only-key@%d" % (g.name, t_.line)
                extra = other_node_fields(sl)
                for (c, t) in helpers:
                    if any(x is c for x in sl):
                        t.build()
                        extra += other_node_fields(list(t.insts()))
                if extra:
                    chk.violation("K2-sortkey", inst, t_, "which sibling comes first also depends on the node field '%s', not on "
                                  "the name comparison alone: two entries with the same name need not end up next to each other, "
                                  "and the duplicate test in %s only looks at neighbours" % (extra[0][1], F.name))
                else:
                    chk.ok("K2-sortkey", inst, t_, "the order of two siblings is decided by the name comparison alone")


def sort_has_no_shortcut(chk, prog, dups):
    """the sort in front of the adjacent-duplicate test really sorts: a sort function hands its input back unchanged only in
    the trivial cases (empty / one element: pointer tests), or behind a comparison-derived flag that was computed by a scan
    over *all* adjacent pairs (the cursor that is compared is the one whose end terminates the scan)"""
    from ..errflow import ret_sources
    n = 0
    for F in dups:
        reach, _, _ = prog.reachable_from([F], stop=lambda g: g.unit is not F.unit)
        for g in reach:
            if g is F or not name_comparisons(prog, g) and not any(norm_callee(c.callee) == g.name for c in g.calls()):
                continue
            # recursive sorters: functions that call themselves and return node pointers
            if not any(norm_callee(c.callee) == g.name for c in g.calls()):
                continue
            g.build()
            chk.analysed(g)
            for (v, b) in ret_sources(g):
                w = strip_casts(v)
                if w.is_inst and w.op == "call":
                    continue            # result of the merge / of a recursive call
                n += 1
                inst = "%s:return-unsorted@%d" % (g.name, b.term.line or 0)
                facts = list(g.guards_at(b))
                t = b.term
                if t.op == "br" and len(t.x["succ"]) == 2:
                    for k, s_ in enumerate(t.x["succ"]):
                        if any(i.op in ("phi", "ret") for i in s_.insts):
                            facts.append((t.ops[0], k == 0, t))
                # a || b in front of the return: the block is entered over several conditional edges
                for pb in b.preds:
                    tt = pb.term
                    if tt.op == "br" and len(tt.x["succ"]) == 2:
                        facts.append((tt.ops[0], tt.x["succ"][0] is b, tt))
                bad = None
                for (cond, outcome, br) in facts:
                    sl = backward_slice(cond, phi_control=True)
                    cmps = [x for x in sl if x.is_inst and x.op == "call" and norm_callee(x.callee) in STR_COMPARES]
                    if not cmps:
                        continue
                    for cmpc in cmps:
                        if not _full_adjacent_scan(g, cmpc):
                            bad = cmpc
                if bad is None:
                    chk.ok("K2-sorttotal", inst, b.term, "the input list is handed back unsorted only when it is empty or has one element "
                           "(or after a scan over all adjacent pairs)")
                else:
                    chk.violation("K2-sorttotal", inst, bad, "the sort returns its input unchanged when a comparison-derived flag is set, "
                                  "but the scan that computes the flag does not run to the end of the list (its loop ends on another "
                                  "cursor): an unsorted tail stays unsorted and same-named entries are not adjacent for the duplicate test")
    return n


def _full_adjacent_scan(g, cmpc):
    """strcmp(x->name, y->name) sits in a loop whose exits test x or y (their loop-carried web) against NULL"""
    loop = g.loop_of(cmpc.bb)
    if loop is None:
        return False
    header, body = loop
    web = set()
    for a in cmpc.ops[:2]:
        for x in backward_slice(a, phi_control=False):
            if x.is_inst and x.op == "phi" and x.bb is header:
                web.add(id(x))
    if not web:
        return False
    for b in body:
        t = b.term
        if t.op == "br" and len(t.x["succ"]) == 2 and any(s_ not in body for s_ in t.x["succ"]):
            cond = t.ops[0]
            if not (cond.is_inst and cond.op == "icmp" and cond.ops[1].is_const and cond.ops[1].is_null):
                return False
            if not any(x.is_inst and x.op == "phi" and id(x) in web for x in backward_slice(cond.ops[0], phi_control=False)):
                return False
    return True


def walk_complete(chk, prog, dups):
    """K2-walk: the pass that sorts and checks sibling names reaches every directory.  Recursion over all children is
    complete by construction.  An iterative walk that climbs back through parent links must not step to the 'next' of an
    ancestor without having tested that it exists -- otherwise the cursor becomes NULL below the top and the walk ends
    although later siblings of the ancestors were never visited."""
    n = 0
    unit_fns = [g for g in prog.functions() if g.unit.src.startswith("bin/rdsquashfs/") and not g.decl]
    for g in unit_fns:
        g.build()
        callees = {prog.fn(c.callee, g.unit) for c in g.calls() if c.callee}
        if not (g in dups or any(d in callees for d in dups)):
            continue
        recursive = any(prog.fn(c.callee, g.unit) is g for c in g.calls() if c.callee)
        parent_loads = [i for i in g.insts() if i.op == "load" and _fld_name(i.ops[0]) == "parent"]
        if not parent_loads:
            if recursive or g in dups:
                n += 1
                chk.analysed(g)
                chk.ok("K2-walk", "%s:traversal" % g.name, g, "every directory is visited by recursion over all children" if recursive
                       else "checks the children of the directory it is given")
            continue
        chk.analysed(g)
        for (h, body) in g.loops:
            for P in h.insts:
                if P.op != "phi" or not P.ty.endswith("sqfs_tree_node_t*"):
                    continue
                for val, pred in zip(P.ops, P.x["inc"]):
                    if pred not in body:
                        continue
                    v = strip_casts(val)
                    if not (v.is_inst and v.op == "load" and _fld_name(v.ops[0]) == "next"):
                        continue
                    x = strip_casts(strip_casts(v.ops[0]).ops[0])
                    climbs = any(y in parent_loads for y in backward_slice(x, phi_control=False, limit=100))
                    if not climbs:
                        continue
                    n += 1
                    inst = "%s:step-to-next@%d" % (g.name, v.line)
                    ok = False
                    for (cond, outcome, br) in g.guards_at(v.bb):
                        if cond.is_inst and cond.op == "icmp" and cond.ops[1].is_const and cond.ops[1].is_null:
                            t = strip_casts(cond.ops[0])
                            if t.is_inst and t.op == "load" and _fld_name(t.ops[0]) == "next" and \
                                    strip_casts(strip_casts(t.ops[0]).ops[0]) is x and ((cond.pred == "ne") == (outcome is True)):
                                ok = True
                    if ok:
                        chk.ok("K2-walk", inst, v, "after climbing to a parent the walk moves on to its next sibling only if there is one")
                    else:
                        chk.violation("K2-walk", inst, v, "after climbing back to a parent the walk steps to its 'next' without having tested "
                                      "that it exists: the cursor becomes NULL below the top of the tree and the remaining directories are "
                                      "never sorted or checked for duplicate names")
    return n


def _fld_name(p):
    p = strip_casts(p)
    if p.is_inst and p.op == "getelementptr":
        fl = p.field()
        return fl[1] if fl else None
    return None


def _never_zero(prog, f, val, depth=0):
    """a non-zero constant, or the result of a helper of the same unit that answers non-zero constants only (a failure
    reporter: `return report_duplicate(n);`)"""
    from ..errflow import ret_sources
    val = strip_casts(val)
    if val.is_const:
        return bool(val.is_int and val.sval != 0)
    if val.is_inst and val.op == "call" and val.callee and depth < 2:
        t = prog.fn(val.callee, f.unit)
        if t is None or t.decl or t.unit is not f.unit:
            return False
        t.build()
        srcs = ret_sources(t)
        return bool(srcs) and all(_never_zero(prog, t, v, depth + 1) for (v, _b) in srcs)
    return False


def find_dup_check(prog):
    """the function that rejects duplicate sibling names: strcmp over two node names with a failing return on equality"""
    res = []
    for f in prog.functions():
        if not f.unit.src.startswith("bin/rdsquashfs/"):
            continue
        for c in f.calls("strcmp"):
            names = 0
            for a in c.ops[:2]:
                if any(x.is_inst and x.op == "getelementptr" and x.fields() and x.fields()[-1][1] == "name" and
                       x.fields()[-1][0].startswith(NODE) for x in backward_slice(a)):
                    names += 1
            if names != 2:
                continue
            # an edge strcmp == 0 leading to a non-zero return
            for r in f.rets():
                v = r.ops[0] if r.ops else None
                cands = []
                if v is not None and v.is_inst and v.op == "phi":
                    for val, pred in zip(v.ops, v.x["inc"]):
                        if _never_zero(prog, f, val):
                            cands.append(pred)
                elif v is not None and _never_zero(prog, f, v):
                    cands.append(r.bb)
                for b in cands:
                    for cond, outcome, br in f.guards_at(b):
                        if cond.is_inst and cond.op == "icmp" and c in backward_slice(cond) and \
                                cond.ops[1].is_const and cond.ops[1].is_int and cond.ops[1].sval == 0 and \
                                outcome == (cond.pred == "eq"):
                            if f not in res:
                                res.append(f)
    return res


def call_result_edge_dominates(f, call, target_block, want_zero=True):
    """is target_block dominated by the edge where `call` returned zero (want_zero) / non-zero"""
    for cond, outcome, br in f.guards_at(target_block):
        if not (cond.is_inst and cond.op == "icmp" and cond.pred in ("eq", "ne")):
            continue
        a, z = cond.ops
        if strip_casts(a) is call and z.is_const and z.is_int and z.sval == 0:
            iszero = outcome == (cond.pred == "eq")
            if iszero == want_zero:
                return True
    return False


def ordering_rule(chk, prog, mset):
    """C06-d in main: duplicate check and creation pass dominate the passes that re-open by path; chdir failure leaves"""
    main = prog.need_fn("main", "bin/rdsquashfs/src/rdsquashfs.c")
    chk.analysed(main)
    dups = find_dup_check(prog)
    if not dups:
        chk.violation("K1-order", "duplicate-check", main, "no function rejecting duplicate sibling names was found in the "
                      "unpacker: a symlink followed by a same-named directory lets files be written through the link")
        return
    sort_agrees_with_dupcheck(chk, prog, dups)
    sort_has_no_shortcut(chk, prog, dups)
    # the check may sit in a helper of the function main calls: a function counts if it is the check itself or hands the
    # failure of one on (on the failure edge of that call it cannot return 0)
    from ..errflow import failure_edges, ret_sources
    memo = {}

    def propagates(g, depth=0):
        if g in dups:
            return True
        if g in memo:
            return memo[g]
        memo[g] = False
        if g is None or g.decl or depth > 4 or not g.unit.src.startswith("bin/rdsquashfs/"):
            return False
        g.build()
        zero = {b for (v, b) in ret_sources(g) if strip_casts(v).is_const and strip_casts(v).is_int and strip_casts(v).sval == 0}
        for c2 in g.calls():
            h = prog.fn(c2.callee, g.unit) if c2.callee else None
            if h is None or h is g or isinstance(h, ExternFn) or not propagates(h, depth + 1):
                continue
            fe = failure_edges(g, c2)
            if not fe:
                continue
            okp = True
            for (succ, fact) in fe:
                seenb, stack = set(), [succ]
                while stack:
                    b = stack.pop()
                    if b in seenb:
                        continue
                    seenb.add(b)
                    if b in zero and not any(i.op == "call" for i in b.insts):
                        okp = False
                    stack.extend(b.succs)
            if okp:
                memo[g] = True
        return memo[g]
    dup_calls = [c for c in main.calls() if c.callee and prog.fn(c.callee, main.unit) is not None and
                 not isinstance(prog.fn(c.callee, main.unit), ExternFn) and propagates(prog.fn(c.callee, main.unit))]
    walk_complete(chk, prog, dups)
    mcalls = []
    for c in main.calls():
        g = prog.fn(c.callee or "", main.unit) if c.callee else None
        if g is not None and not g.decl and g in mset and g.unit.src.startswith("bin/rdsquashfs/") and g not in dups:
            mcalls.append(c)
    if not mcalls:
        chk.broke("no file-system mutating pass found in rdsquashfs main")
        return
    # creation pass = the first mutating pass (creates with O_EXCL); later passes re-open by path
    for c in mcalls:
        nm = norm_callee(c.callee)
        ok = any(call_result_edge_dominates(main, d, c.bb, True) for d in dup_calls)
        if ok:
            chk.ok("K1-order", "dupcheck->%s" % nm, c, "reached only after %s() returned 0" % dups[0].name)
        else:
            chk.violation("K1-order", "dupcheck->%s" % nm, c,
                          "%s can run without a successful duplicate-name check" % nm)
    creators = [c for c in mcalls if _creates_excl(prog, prog.fn(c.callee, main.unit))]
    for c in mcalls:
        if c in creators:
            continue
        nm = norm_callee(c.callee)
        ok = any(call_result_edge_dominates(main, cr, c.bb, True) for cr in creators)
        if ok:
            chk.ok("K1-order", "create->%s" % nm, c, "objects are re-opened by path only after the O_EXCL creation pass succeeded")
        else:
            chk.violation("K1-order", "create->%s" % nm, c,
                          "%s re-opens objects by path without a successful creation pass before it" % nm)
    for c in main.calls("chdir"):
        # failure edge must not reach a mutating pass
        bad = None
        for u in main.uses.get(c, []):
            if u.op == "icmp" and u.pred in ("eq", "ne") and u.ops[1].is_const and u.ops[1].sval == 0:
                for br in main.uses.get(u, []):
                    if br.op == "br" and len(br.x["succ"]) == 2:
                        fail = br.x["succ"][0] if u.pred == "ne" else br.x["succ"][1]
                        seen, stack = set(), [fail]
                        while stack:
                            b = stack.pop()
                            if b in seen:
                                continue
                            seen.add(b)
                            for i in b.insts:
                                if i in mcalls:
                                    bad = i
                            stack.extend(b.succs)
        used = bool(main.uses.get(c))
        if bad is None and used:
            chk.ok("K1-order", "chdir-failure", c, "a failed chdir into the unpack root never reaches an unpacking pass")
        else:
            chk.violation("K1-order", "chdir-failure", c, "after a failed (or unchecked) chdir into the unpack root the "
                          "unpacker goes on and writes relative to the wrong directory")


def _creates_excl(prog, g, depth=0, seen=None):
    seen = seen or set()
    if g is None or g.decl or g in seen or depth > 4:
        return False
    seen.add(g)
    for c in g.build().calls():
        name = norm_callee(c.callee)
        if name in ("open", "open64"):
            fl = const_int(c.ops[1])
            if fl is not None and (fl & O_CREAT) and (fl & O_EXCL):
                return True
        h = prog.fn(c.callee or "", g.unit) if c.callee else None
        if h is not None and h is not g and _creates_excl(prog, h, depth + 1, seen):
            return True
    return False


def cmdline_rule(chk, prog):
    """C06-e: the unpack path taken from the command line is canonicalised before it is stored"""
    n = 0
    for f in prog.functions():
        if f.unit.src != "bin/rdsquashfs/src/options.c":
            continue
        for i in f.insts():
            if i.op != "store":
                continue
            p = strip_casts(i.ops[1])
            if not (p.is_inst and p.op == "getelementptr" and p.field() and p.field()[1] == "cmdpath"):
                continue
            v = strip_casts(i.ops[0])
            if v.is_const and v.is_null:
                continue
            n += 1
            ok = False
            if v.is_inst and v.op == "call" and v.callee:
                g = prog.fn(v.callee, f.unit)
                if g is not None and not g.decl:
                    g.build()
                    cn = g.calls("canonicalize_name")
                    rets = [r for r in g.rets()]
                    for c in cn:
                        if all(call_result_edge_dominates(g, c, r.bb, True) or
                               _phi_ret_guarded(g, r, c) for r in rets):
                            ok = True
            if ok:
                chk.ok("K1-cmdline", "%s:cmdpath" % f.name, i, "path option is stored only after canonicalize_name succeeded")
            else:
                chk.violation("K1-cmdline", "%s:cmdpath" % f.name, i, "a command-line path is stored without canonicalisation")
    return n


def _phi_ret_guarded(g, r, c):
    v = r.ops[0] if r.ops else None
    if v is None:
        return False
    if v.is_inst and v.op == "phi" and v.bb is r.bb:
        for val, pred in zip(v.ops, v.x["inc"]):
            if val.is_const and val.is_null:
                continue
            if not call_result_edge_dominates(g, c, pred, True):
                return False
        return True
    return False


def get_path_rule(chk, prog):
    """C06-f: sqfs_tree_node_get_path refuses '/', '.', '..' components"""
    f = prog.need_fn("sqfs_tree_node_get_path")
    chk.analysed(f)
    # failing returns guarded by (a) strchr(name,'/') != NULL, (b) name[0]=='.' with length tests / name[1]=='.'
    slash = dot = False
    for r in f.rets():
        v = r.ops[0] if r.ops else None
        cands = []
        if v is not None and v.is_inst and v.op == "phi":
            for val, pred in zip(v.ops, v.x["inc"]):
                if val.is_const and val.is_int and val.sval != 0:
                    cands.append(pred)
        for b in cands:
            for cond, outcome, br in f.guards_at(b):
                sl = backward_slice(cond)
                for x in sl:
                    if x.is_inst and x.op == "call" and norm_callee(x.callee) in ("strchr", "memchr") and \
                            const_int(x.ops[1]) == 47:
                        if cond.op == "icmp" and outcome == (cond.pred == "ne"):
                            slash = True
                if cond.is_inst and cond.op == "icmp" and cond.pred in ("eq", "ne"):
                    k = [o for o in cond.ops if o.is_const and o.is_int and o.sval == 46]
                    if k and outcome == (cond.pred == "eq"):
                        dot = True
    if slash:
        chk.ok("K1-getpath", "rejects-slash", f, "a name containing '/' leads to an error return")
    else:
        chk.violation("K1-getpath", "rejects-slash", f, "sqfs_tree_node_get_path no longer refuses names containing '/'")
    if dot:
        chk.ok("K1-getpath", "rejects-dot", f, "'.' / '..' components lead to an error return")
    else:
        chk.violation("K1-getpath", "rejects-dot", f, "sqfs_tree_node_get_path no longer refuses '.' / '..' components")


def _is_name_ptr(v):
    return any(x.is_inst and x.op == "getelementptr" and x.fields() and x.fields()[-1][1] == "name" and
               x.fields()[-1][0].startswith(NODE) for x in backward_slice(v))


def _whole_length(prog, f, v, depth=0):
    """v is strlen(<node name>) -- directly, or through a static helper all of whose returns are that"""
    v = strip_casts(v)
    while v.is_inst and v.op in ("zext", "sext", "trunc"):
        v = strip_casts(v.ops[0])
    if not (v.is_inst and v.op == "call"):
        return False
    if norm_callee(v.callee) == "strlen":
        return _is_name_ptr(v.ops[0])
    g = prog.fn(v.callee, f.unit) if v.callee else None
    if g is None or g.decl or depth > 2:
        return False
    g.build()
    from ..errflow import ret_sources
    srcs = ret_sources(g)
    return bool(srcs) and all(_whole_length(prog, g, x, depth + 1) for (x, _b) in srcs)


def whole_name_rule(chk, prog):
    """K12-wholename: the duplicate check compares whole names (strcmp), so the path of an entry is made of whole names:
    every copy of a node's name into the path buffer is as long as strlen() of that name.  A clamped, rounded or otherwise
    re-computed length lets two entries that differ behind the cut land on one path -- a symlink and a directory that
    passed the duplicate check as different names."""
    f = prog.need_fn("sqfs_tree_node_get_path")
    f.build()
    n = 0
    for c in f.calls():
        nm = norm_callee(c.callee)
        if nm in ("memcpy", "memmove", "strncpy", "strncat", "mempcpy") and len(c.ops) >= 3 and _is_name_ptr(c.ops[1]):
            n += 1
            chk.analysed(f)
            inst = "%s:%s@%d" % (f.name, nm, c.line)
            if _whole_length(prog, f, c.ops[2]):
                chk.ok("K12-wholename", inst, c, "the component is copied with the length strlen() reports for the name")
            else:
                chk.violation("K12-wholename", inst, c, "a node's name is copied into the path with a length that is not strlen() "
                              "of that name: names that the duplicate check told apart can end up as the same path component "
                              "(a symlink and a directory on one path)")
        elif nm in ("strcpy", "stpcpy", "strcat") and len(c.ops) >= 2 and _is_name_ptr(c.ops[1]):
            n += 1
            chk.analysed(f)
            chk.ok("K12-wholename", "%s:%s@%d" % (f.name, nm, c.line), c, "the whole string is copied")
    return n


def run(chk):
    prog = load_program(TOOL)
    chk.explanation = (
        "Confinement rules for rdsquashfs --unpack, decided on LLVM IR of the rdsquashfs link closure: the set M of "
        "file-system mutating calls is discovered; (a) every recursive tree walk that reaches M (or feeds the deferred "
        "file list) gates each mutating call and each recursion by the accepting edge of is_filename_sane(n->name); "
        "(b) backward provenance of every path argument of M: image-derived paths come only from "
        "sqfs_tree_node_get_path followed by canonicalize_name on the same buffer, everything else is a constant or a "
        "command-line field; (c) constant hardening flags (O_CREAT|O_EXCL no O_TRUNC, AT_SYMLINK_NOFOLLOW, lsetxattr, "
        "fchmodat guarded by !S_ISLNK); (d) duplicate check and O_EXCL creation pass dominate the passes that re-open "
        "by path, failed chdir never unpacks; (e) command-line paths canonicalised; (f) get_path refuses '/', '.', '..'. Further rules: K2-sorttotal (the sort returns its input unsorted only in the trivial cases or after a full adjacent scan), K2-walk (the sorting/checking pass reaches every directory), K12-flags also rejects name-creating calls outside the reviewed set; K1-order follows the check into helpers. Provenance looks through copies and hand-filled buffers: a strdup is what it copied, a malloc'ed path is what was memcpy'ed / sprintf'ed into it. K12-exclfatal: on the edge where open(O_CREAT|O_EXCL) or mknod failed no path returns success (their objects are later opened and re-moded by path) (an object that is already there is never taken for one the unpacker made). K12-wholename: a node's name is copied into the path with the length strlen() reports for it (the path is made of the names the duplicate check compared).")
    chk.assumptions = ["that sort + adjacent compare finds every duplicate, and races with other processes, are not decided"]
    from .. import taint
    taint.CONTENT[0] = True      # a copy or a hand-filled buffer is judged by what was copied into it
    sinks = PathSinks(prog)
    mset = sinks.reaches_M()
    chk.note("mutating call sites in the closure: %d; parameter sinks: %s; deferred sink fields: %s" % (
        len(sinks.sites), sorted("%s#%d" % (f.name, i) for (f, i) in sinks.param_sink), sorted(sinks.field_sink)))
    walks = name_gate_rule(chk, prog, sinks, mset)
    chk.note("tree walks reaching M: %s" % sorted(w[0].name for w in walks))
    if len(walks) < 3:
        chk.broke("only %d gated tree walks found (expected the creation, file-list and attribute walks)" % len(walks))
    sanitiser_rule(chk, prog, sinks)
    flags_rule(chk, prog, mset)
    excl_fatal_rule(chk, prog)
    chk.floor("K12-exclfatal", 2)
    ordering_rule(chk, prog, mset)
    cmdline_rule(chk, prog)
    get_path_rule(chk, prog)
    whole_name_rule(chk, prog)
    chk.floor("K12-wholename", 1)
    from .c16 import rule_type_twins
    rule_type_twins(chk, prog)
    chk.floor("K12-twins", 5)
    chk.floor("K1-gate", 7)
    chk.floor("K1-sanitise", 5)
    chk.floor("K12-flags", 5)
    chk.floor("K2-sorttotal", 1)
    chk.floor("K2-walk", 1)
    chk.floor("K1-order", 5)
    chk.floor("K1-cmdline", 4)
    chk.floor("K1-getpath", 2)
    controls(chk)


def controls(chk):
    from ..controls import control_program
    from ..report import Check
    prog = control_program("c06_controls.c")
    sub = Check("C06-control", chk.tier)
    sinks = PathSinks(prog)
    mset = sinks.reaches_M()
    name_gate_rule(sub, prog, sinks, mset)
    sanitiser_rule(sub, prog, sinks)
    got = {(o["rule"], o["function"]) for o in sub.obl if o["verdict"] == "VIOLATED"}
    chk.control("K1-gate", ("K1-gate", "ctl_walk_nogate") in got, "tree walk creating entries without the name gate")
    chk.control("K1-sanitise", ("K1-sanitise", "ctl_walk_nocanon") in got, "get_path result used without canonicalize_name")
    chk.control("silent-on-good", not any(fn == "ctl_walk_good" for (_r, fn) in got), "correct walk must not be reported")
