"""C10 -- reader answers depend only on image and query: cache tag/payload coherence (K9)."""
from ..ir import load_program, strip_casts, norm_callee
from ..build import AnalysisBroken
from ..util import resolve_ptr, backward_slice, const_int
from ..effects import slot_call

# frozen cache table (DESIGN.md C10): struct -> caches
ARRAY_CACHES = [
    # (struct, tag field, payload fields (array payload + values derived from the loaded block))
    ("struct.sqfs_meta_reader_t", "block_offset", ("data", "data_used", "next_block")),
]
POINTER_CACHES = [
    # (struct, tag field, payload pointer field)
    ("struct.sqfs_data_reader_t", "current_block", "data_block"),
    ("struct.sqfs_data_reader_t", "current_frag_index", "frag_block"),
]
# reader structs whose fields may only be written by constructor/load/copy and the cache functions
READER_STATE = {
    "struct.sqfs_meta_reader_t": {"offset": "read cursor, set by seek/read"},
    "struct.sqfs_data_reader_t": {},
    "struct.sqfs_xattr_reader_t": {},
}

OLD, INV, DIRTY, NEW = "valid-old", "invalidated", "DIRTY", "valid-new"


def field_of_ptr(p, sname):
    """field name if pointer p addresses a member of struct sname (first matching step)"""
    p = strip_casts(p)
    while p.is_inst and p.op == "getelementptr":
        for (s, n) in p.fields():
            if s == sname or s.startswith(sname + "."):
                return n
        p = strip_casts(p.ops[0])
    return None


def base_is_fresh(prog, p, fn):
    """pointer derives from an allocation made in this function (constructor / copy hook)"""
    b = resolve_ptr(prog, p, fn.unit)[0]
    seen = set()
    stack = [b]
    while stack:
        x = strip_casts(stack.pop())
        if id(x) in seen:
            continue
        seen.add(id(x))
        if x.is_inst and x.op == "phi":
            stack.extend(x.ops)
        elif x.is_inst and x.op == "call" and norm_callee(x.callee) in ("calloc", "malloc", "alloc_flex", "alloc_array"):
            return True
    return False


def payload_events(prog, fn, sname, tag, payload):
    """per instruction: ('tag', const?) / ('payload', fallible?)"""
    ev = {}
    for i in fn.insts():
        if i.op == "store":
            f = field_of_ptr(i.ops[1], sname)
            if f == tag:
                v = i.ops[0]
                ev[i] = ("tag", v.is_const)
            elif f in payload:
                ev[i] = ("payload", False)
        elif i.op == "call":
            name = norm_callee(i.callee)
            for ai, a in enumerate(i.ops):
                if a.is_const or not getattr(a, "ty", "").endswith("*"):
                    continue
                f = field_of_ptr(a, sname)
                if f is None:
                    continue
                if name in ("memcpy", "memmove", "memset"):
                    if ai == 0:
                        if f in payload:
                            ev[i] = ("payload", False)
                        elif f == tag:
                            ev[i] = ("tag", True)
                    continue
                if f in payload:
                    # pointer to the payload handed to a callee (read_at / do_block destination)
                    if name in ("memcmp", "strlen"):
                        continue
                    # only destinations count: for indirect calls through read_at/do_block the
                    # payload is written when it is not the *input* argument of do_block
                    ev[i] = ("payload", True)
    return ev


def _takes_object(fn_or_call_ops, sname):
    for a in fn_or_call_ops:
        ty = getattr(a, "ty", "") or ""
        b = strip_casts(a) if hasattr(a, "is_inst") else a
        for t in (ty, getattr(b, "ty", "") or ""):
            if t.endswith("*") and not t.endswith("**") and (t[1:-1] == sname or t[1:-1].startswith(sname + ".")):
                return True
    return False


def run_array_cache(chk, prog, sname, tag, payload):
    """typestate of one array cache over every function that touches it.  Static helpers are part of their callers: a
    call of a helper that is handed the cache object applies the helper's summary (state at entry -> states at its
    returns), and the helper's own obligation is judged for the states its call sites can be in, not for 'valid'."""
    n = 0
    evs, skip = {}, set()
    for fn in prog.functions():
        ev = payload_events(prog, fn, sname, tag, payload)
        if not ev:
            continue
        if all(base_is_fresh(prog, (i.ops[1] if i.op == "store" else i.ops[0]), fn) for i in ev):
            chk.ok("K9-array", "%s:%s" % (fn.name, tag), fn, "writes only a freshly allocated reader", nontrivial=False)
            skip.add(fn)
            continue
        # do_block(cmp, in, insize, out, outsize): the first pointer argument is the input
        for i, e in list(ev.items()):
            if i.op == "call" and i.callee is None and e[0] == "payload":
                ptr_args = [a for a in i.ops if not a.is_const and a.ty.endswith("*")]
                # payload passed only as the *input* of a transformation whose output is elsewhere
                tg = prog.call_targets(i)[0]
                names = {getattr(t, "name", "") for t in tg}
                if any("do_block" in x or x.endswith("_block") for x in names) and len(ptr_args) >= 3:
                    if field_of_ptr(ptr_args[1], sname) in payload and field_of_ptr(ptr_args[2], sname) not in payload:
                        del ev[i]
        evs[fn] = ev
    # helpers: static functions with events, every caller of which is known, that are handed the object
    helpers = set()
    for fn in evs:
        if fn.internal and prog.callers_of(fn) and _takes_object(fn.params, sname):
            helpers.add(fn)
    # call events: a call of a function with events (a helper, or anything else that writes the cache) on this object
    callev = {}
    changed = True
    touching = set(evs)
    while changed:
        changed = False
        for fn in prog.functions():
            if fn.decl or fn in skip:
                continue
            for c in fn.build().calls():
                if not c.callee:
                    continue
                g = prog.fn(c.callee, fn.unit)
                if g is None or g.decl or g is fn or g not in touching or not _takes_object(c.ops, sname):
                    continue
                if (fn, c) not in callev:
                    callev[(fn, c)] = g
                    if fn not in touching:
                        touching.add(fn)
                        evs.setdefault(fn, {})
                    changed = True
    summ_cache = {}

    def flow(fn, entry, record=None, depth=0):
        """-> {block: out state}; entry: frozenset of states"""
        ev = evs.get(fn, {})
        calls = {c: g for (f_, c), g in callev.items() if f_ is fn}
        states = {fn.blocks[0]: entry}
        work = [fn.blocks[0]]
        out_state = {}

        def transfer(b, st):
            commit = any(ev.get(i, ("", 0))[0] == "tag" and not ev[i][1] for i in b.insts)
            for i in b.insts:
                if i in calls and depth < 4:
                    if record is not None:
                        record.setdefault(calls[i], set()).update(st)
                    # a callee that leaves the cache dirty is reported where it does so, not again in every caller
                    st = frozenset((INV if (o == DIRTY and s_ != DIRTY) else o) for s_ in st for o in summary(calls[i], s_, depth + 1))
                    continue
                e = ev.get(i)
                if e is None:
                    continue
                if e[0] == "tag":
                    st = frozenset([INV]) if e[1] else frozenset([NEW])
                else:
                    if commit and not e[1]:
                        continue     # plain stores in the block that commits the new tag
                    st = frozenset(INV if s_ == INV else DIRTY for s_ in st)
            return st
        while work:
            b = work.pop(0)
            o = transfer(b, states[b])
            out_state[b] = o
            for s_ in b.succs:
                cur = states.get(s_)
                nv = o if cur is None else (cur | o)
                if nv != cur:
                    states[s_] = nv
                    if s_ not in work:
                        work.append(s_)
        return out_state

    def summary(g, s_in, depth):
        key = (g, s_in)
        if key in summ_cache:
            return summ_cache[key]
        summ_cache[key] = frozenset([s_in])      # recursion: identity
        g.build()
        out = flow(g, frozenset([s_in]), None, depth)
        res = set()
        for r in g.rets():
            if r.bb in out:
                res |= set(out[r.bb])
        summ_cache[key] = frozenset(res) if res else frozenset([s_in])
        return summ_cache[key]

    # entry states of helpers: what their call sites can be in (fix-point from the non-helpers)
    entry = {fn: frozenset([OLD]) for fn in evs if fn not in helpers}
    seen_states = {}
    for _round in range(4):
        rec = {}
        for fn in list(evs):
            if fn in helpers and fn not in entry:
                continue
            flow(fn.build(), entry[fn], rec)
        new = False
        for g, sts in rec.items():
            if g in helpers:
                cur = entry.get(g, frozenset())
                nv = cur | frozenset(sts)
                if nv != cur:
                    entry[g] = nv
                    new = True
        if not new:
            break
    for fn in sorted(evs, key=lambda x: x.qname):
        if fn not in entry:
            # a helper nobody calls with the object in a known state: judged on its own
            entry[fn] = frozenset([OLD])
        ev = evs[fn]
        if not ev and not any(f_ is fn for (f_, _c) in callev):
            continue
        chk.analysed(fn)
        n += 1
        out_state = flow(fn, entry[fn])
        for r in fn.rets():
            if r.bb not in out_state:
                continue
            st = out_state[r.bb]
            if DIRTY in st:
                # witness: which return value / which path
                chk.violation("K9-array", "%s:%s" % (fn.name, tag), r,
                              "a path reaches this return after the cached block (%s) was overwritten while '%s' still "
                              "names the previous block: a later request for the old block is served from the wrong "
                              "bytes" % ("/".join(payload), tag), path=_witness(fn, ev, r))
                break
        else:
            how = "" if fn not in helpers else " (static helper: entered with the cache %s)" % "/".join(sorted(entry[fn]))
            chk.ok("K9-array", "%s:%s" % (fn.name, tag), fn,
                   "on every path the tag is invalidated before, or set after, the payload writes (%d events)%s" % (len(ev), how))
        # C10-b: hit path
        if ev:
            hit_test(chk, prog, fn, sname, tag, None, ev)
    return n


def _witness(fn, ev, ret):
    """one path entry -> ret passing a payload write and no later tag store"""
    lines = []
    for i in fn.insts():
        if i in ev:
            lines.append("%s:%d %s" % (i.file, i.line, ev[i][0]))
    return lines + ["return at %s:%d" % (ret.file, ret.line)]


def hit_test(chk, prog, fn, sname, tag, ptr_field, ev):
    """returns that may yield 0 and are reachable without any payload write must be guarded by tag == key
    (and ptr != NULL for pointer payloads)"""
    writes = {i.bb for i in ev if ev[i][0] == "payload"}
    # blocks reachable from entry without passing through a payload-writing block
    clean = set()
    stack = [fn.blocks[0]]
    while stack:
        b = stack.pop()
        if b in clean or b in writes:
            continue
        clean.add(b)
        stack.extend(b.succs)
    found = False
    # a function that also *uses* the payload (copies out of it) has other ways to succeed than a cache hit (nothing to
    # read, a sparse block, ...): there the obligation sits on the use -- a copy out of the payload that can be reached
    # without a (re)load is guarded by the tag (and pointer) test
    uses = []
    if ptr_field:
        for c in fn.calls():
            if norm_callee(c.callee) in ("memcpy", "memmove") and len(c.ops) >= 2:
                if any(x.is_inst and x.op == "load" and field_of_ptr(x.ops[0], sname) == ptr_field
                       for x in [strip_casts(c.ops[1])] + list(backward_slice(c.ops[1], phi_control=False, limit=30))):
                    uses.append(c)
    if uses:
        for c in uses:
            if c.bb not in clean:
                continue
            found = True
            has_tag = not _reach_clean_avoiding(fn, c.bb, clean, sname, tag, False)
            has_ptr = not _reach_clean_avoiding(fn, c.bb, clean, sname, ptr_field, True)
            inst = "%s:%s:hit" % (fn.name, tag)
            if has_tag and has_ptr:
                chk.ok("K13-hit", inst, c, "a copy out of the cached block that is reached without a reload is guarded by %s == key and %s != NULL"
                       % (tag, ptr_field))
            else:
                chk.violation("K13-hit", inst, c, "the cached block is copied from on a path without a reload that is not guarded by the "
                              "tag/pointer test")
        return found
    for r in fn.rets():
        if not r.ops:
            continue
        v = r.ops[0]
        cands = []
        if v.is_inst and v.op == "phi" and v.bb is r.bb:
            for val, pred in zip(v.ops, v.x["inc"]):
                if val.is_const and val.is_int and val.sval == 0 and pred in clean:
                    cands.append(pred)
        elif v.is_const and v.is_int and v.sval == 0 and r.bb in clean:
            cands.append(r.bb)
        for b in cands:
            has_tag = has_ptr = False
            for cond, outcome, br in fn.guards_at(b):
                if not (cond.is_inst and cond.op == "icmp"):
                    continue
                loads = [x for o in cond.ops for x in backward_slice(o) if x.is_inst and x.op == "load"]
                fields = {field_of_ptr(x.ops[0], sname) for x in loads}
                if tag in fields and cond.pred in ("eq", "ne") and outcome == (cond.pred == "eq"):
                    has_tag = True
                if ptr_field and ptr_field in fields and cond.pred in ("eq", "ne") and \
                        any(o.is_const and o.is_null for o in cond.ops) and outcome == (cond.pred == "ne"):
                    has_ptr = True
            # the same by paths (hit and miss may share the final `return 0`): among the ways to b that write nothing,
            # none avoids the 'tag == key' edge (resp. the 'pointer != NULL' edge)
            if not has_tag:
                has_tag = not _reach_clean_avoiding(fn, b, clean, sname, tag, False)
            if ptr_field and not has_ptr:
                has_ptr = not _reach_clean_avoiding(fn, b, clean, sname, ptr_field, True)
            found = True
            inst = "%s:%s:hit" % (fn.name, tag)
            if has_tag and (has_ptr or not ptr_field):
                chk.ok("K13-hit", inst, b.term, "cache-hit return is guarded by %s == key%s" % (
                    tag, " and %s != NULL" % ptr_field if ptr_field else ""))
            else:
                # a return 0 before any payload write that is not a cache hit (e.g. nothing to do) is fine only if
                # the function also has no tag load at all
                loads_tag = any(i.op == "load" and field_of_ptr(i.ops[0], sname) == tag for i in fn.insts())
                if loads_tag:
                    chk.violation("K13-hit", inst, b.term,
                                  "success return without reloading the payload is not guarded by the tag%s" % (
                                      "/pointer" if ptr_field else ""))
    return found


def _reach_clean_avoiding(fn, target, clean, sname, field, nonnull):
    """is `target` reachable from the entry through blocks that write no payload, without taking an edge on which
    `field` was found equal to something (nonnull: found different from NULL)?"""
    banned = set()
    n_edges = 0
    for b in clean:
        t = b.term
        if not (t.op == "br" and len(t.x["succ"]) == 2):
            continue
        cond = t.ops[0]
        if not (cond.is_inst and cond.op == "icmp" and cond.pred in ("eq", "ne")):
            continue
        loads = [x for o in cond.ops for x in backward_slice(o) if x.is_inst and x.op == "load"]
        if field not in {field_of_ptr(x.ops[0], sname) for x in loads}:
            continue
        if nonnull:
            if not any(o.is_const and o.is_null for o in cond.ops):
                continue
            good = t.x["succ"][0 if cond.pred == "ne" else 1]
        else:
            good = t.x["succ"][0 if cond.pred == "eq" else 1]
        banned.add((b, good))
        n_edges += 1
    if not n_edges:
        return True
    seen, stack = set(), [fn.blocks[0]]
    while stack:
        b = stack.pop()
        if b in seen or b not in clean:
            continue
        seen.add(b)
        if b is target:
            return True
        for s_ in b.succs:
            if (b, s_) not in banned:
                stack.append(s_)
    return False


def copy_tag_rule(chk, prog):
    """K9-copytag: a function that sets up a fresh reader and takes the tag of a cache over from another reader (a block
    copy that covers the tag member, or a store of the other one's tag) also takes the payload over, on every path that
    hands the new object out -- or resets the tag.  A copy that names a block it does not hold answers a later seek into
    that block from whatever its buffer happens to contain."""
    from .c13 import _e7_walk
    n = 0

    class _S:
        pass
    for (sname, tag, payload) in ARRAY_CACHES:
        st = prog.struct(sname)
        if st is None:
            continue
        offs = {e.get("n"): (e["off"], e["sz"]) for e in st["elems"]}
        if tag not in offs or payload[0] not in offs:
            chk.broke("K9-copytag: members of %s not found" % sname)
            continue
        t_off, t_sz = offs[tag]
        d_off, d_sz = offs[payload[0]]
        for f in prog.functions():
            if f.decl:
                continue
            f.build()
            ev = {}
            for i in f.insts():
                if i.op == "call" and norm_callee(i.callee) in ("memcpy", "memmove") and len(i.ops) >= 3:
                    base, off, exact = resolve_ptr(prog, i.ops[0], f.unit)
                    if not exact or not base_is_fresh(prog, i.ops[0], f):
                        continue
                    pt = _ptr_struct(prog, f, i.ops[0])
                    if pt is None or not (pt == sname or pt.startswith(sname + ".")):
                        continue
                    ln = i.ops[2]
                    hi = off + ln.uval if (ln.is_const and ln.is_int) else None
                    kinds = set()
                    if off <= t_off and hi is not None and hi >= t_off + t_sz:
                        kinds.add("tag")
                    if off <= d_off and (hi is None or hi > d_off):
                        if off == d_off or (hi is not None and hi >= d_off + 1):
                            kinds.add("payload")
                    if kinds:
                        ev[i] = kinds
                elif i.op == "store" and field_of_ptr(i.ops[1], sname) == tag and base_is_fresh(prog, i.ops[1], f):
                    ev[i] = {"reset"} if i.ops[0].is_const else {"tag"}
            if not any("tag" in k for k in ev.values()):
                continue
            n += 1
            chk.analysed(f)
            s0 = _S()
            s0.bb = f.blocks[0]
            bad = None
            for (v, r, path) in _e7_walk(prog, f, s0, None, [], set()):
                w = strip_casts(v)
                if w.is_const and w.is_null:
                    continue
                has_tag = has_payload = False
                for b in path:
                    for i in b.insts:
                        k = ev.get(i)
                        if not k:
                            continue
                        if "tag" in k:
                            has_tag = True
                        if "payload" in k:
                            has_payload = True
                        if "reset" in k:
                            has_tag = False
                if has_tag and not has_payload:
                    bad = r
                    break
            inst = "%s:%s" % (f.name, tag)
            if bad is None:
                chk.ok("K9-copytag", inst, f, "wherever the tag is taken over, the payload is taken over too (or the tag is reset)")
            else:
                chk.violation("K9-copytag", inst, bad, "a path hands out a new %s whose '%s' names the other reader's block while '%s' was "
                              "not copied: a seek into that block is answered from an uninitialised buffer"
                              % (sname.replace("struct.", ""), tag, payload[0]))
    return n


def _ptr_struct(prog, f, p):
    """struct S if the base of pointer p is an S* (looking through the casts memcpy needs)"""
    b = resolve_ptr(prog, p, f.unit)[0]
    seen = 0
    x = b
    while seen < 4:
        ty = getattr(x, "ty", "") or ""
        if ty.startswith("%struct.") and ty.endswith("*") and not ty.endswith("**"):
            return ty[1:-1]
        if x.is_inst and x.op == "bitcast":
            x = x.ops[0]
            seen += 1
            continue
        # malloc result cast to the struct somewhere
        for u in f.uses.get(x, []) if x.is_inst else []:
            if u.op == "bitcast" and u.ty.startswith("%struct.") and u.ty.endswith("*"):
                return u.ty[1:-1]
        break
    return None


STATEFUL_CODEC = {"inflate": 0, "deflate": 0, "LZ4_decompress_safe_continue": 0, "LZ4_compress_fast_continue": 0,
                  "LZ4_decompress_fast_continue": 0, "ZSTD_decompressStream": 0, "ZSTD_compressStream": 0,
                  "ZSTD_compressStream2": 0, "lzma_code": 0, "BZ2_bzDecompress": 0, "BZ2_bzCompress": 0}
CODEC_RESET = {"inflateReset", "inflateReset2", "deflateReset", "LZ4_setStreamDecode", "LZ4_resetStream", "LZ4_resetStream_fast",
               "ZSTD_DCtx_reset", "ZSTD_CCtx_reset", "ZSTD_initDStream", "ZSTD_initCStream"}


def codec_scalar_out_rule(chk, prog):
    """K3-libout: the compressor object is shared by every reader of an image and outlives every query, so a query must not
    change it.  Stores into it are seen by the state rules; a codec library can write it too, through a pointer: in the
    functions behind sqfs_compressor_t.do_block, the address of a scalar member of the compressor object is not handed to a
    function outside the program (liblzma's `memlimit` is an in/out parameter: a block that is refused for its memory
    demand raises the limit for every later query).  A local copy of the value is what such a parameter gets."""
    n = 0
    for f in sorted(prog.slot_impls(("struct.sqfs_compressor_t", "do_block")), key=lambda x: x.qname):
        if f.decl:
            continue
        f.build()
        cl, _e, _u = prog.reachable_from([f], stop=lambda g, u=f.unit: g.unit is not u)
        for g in cl:
            if g.decl:
                continue
            g.build()
            n += 1
            chk.analysed(g)
            bad = None
            for c in g.calls():
                if not c.callee:
                    continue
                t = prog.fn(c.callee, g.unit)
                if t is not None and not t.decl:
                    continue
                nm = norm_callee(c.callee)
                if nm.startswith("llvm.") or nm in ("memcpy", "memset", "memmove", "memcmp"):
                    continue
                for a in c.ops:
                    q = strip_casts(a)
                    if not (q.is_inst and q.op == "getelementptr" and q.field()):
                        continue
                    if not (getattr(a, "ty", "") or "") in ("i8*", "i16*", "i32*", "i64*"):
                        continue
                    root = strip_casts(resolve_ptr(prog, q.ops[0], g.unit)[0])
                    if root.is_inst and root.op == "alloca":
                        continue
                    if strip_casts(a) is q and (q.ty or "") in ("i8*",):
                        continue            # a byte buffer member, not a scalar
                    bad = (c, q.field())
            inst = "%s:scalar-members" % g.name
            if bad is None:
                chk.ok("K3-libout", inst, g, "no scalar member of the compressor object is handed to a library by address", nontrivial=False)
            else:
                c, fld_ = bad
                chk.violation("K3-libout", inst, c, "the address of the member '%s' of the compressor object is handed to %s: the "
                              "library can write it (an in/out parameter), so one query changes what the shared object answers to "
                              "the next" % (fld_[1], norm_callee(c.callee)))
    return n


def codec_state_rule(chk, prog):
    """K3-statereset: a block is unpacked (and packed) from its own bytes alone.  Where an implementation of
    sqfs_compressor_t.do_block hands library state that lives in the compressor object (the object is shared by every
    reader of an image and lives as long as they do) to a streaming call of a codec library -- a call that carries
    history from one invocation to the next -- that state is reset by the library's reset call on the same state before,
    in the same invocation.  State in a local of the function is fresh by construction."""
    n = 0
    for f in sorted(prog.slot_impls(("struct.sqfs_compressor_t", "do_block")), key=lambda x: x.qname):
        if f.decl:
            continue
        f.build()
        cl, _e, _u = prog.reachable_from([f], stop=lambda g, u=f.unit: g.unit is not u)
        for g in cl:
            for c in g.build().calls():
                nm = norm_callee(c.callee) if c.callee else None
                if nm not in STATEFUL_CODEC or len(c.ops) <= STATEFUL_CODEC[nm]:
                    continue
                stp = c.ops[STATEFUL_CODEC[nm]]
                base = strip_casts(resolve_ptr(prog, stp, g.unit)[0])
                # through a pointer member: the state object is designated by a field of something
                if base.is_inst and base.op == "load":
                    q = strip_casts(resolve_ptr(prog, base.ops[0], g.unit)[0])
                    if q.is_inst and q.op == "alloca":
                        continue
                    holder = True
                elif base.is_inst and base.op == "alloca":
                    continue                    # a local stream: initialised in this invocation
                else:
                    holder = base.is_arg or (base.is_inst and base.op in ("phi", "select"))
                if not holder:
                    continue
                n += 1
                chk.analysed(g)
                inst = "%s:%s@%d" % (g.name, nm, c.line)
                resets = [r for r in g.calls() if norm_callee(r.callee) in CODEC_RESET and r.ops and
                          _same_state(prog, g, r.ops[0], stp)]
                ok = any(g.inst_dominates(r, c) for r in resets)
                if not ok and resets:
                    # compress / decompress arms each with their own reset: no way to the call avoids all of them
                    rb = {r.bb for r in resets if not (r.bb is c.bb and r.pos > c.pos)}
                    seen_, st_, reach = set(), [g.blocks[0]], False
                    while st_:
                        b_ = st_.pop()
                        if b_ in seen_ or b_ in rb:
                            continue
                        seen_.add(b_)
                        if b_ is c.bb:
                            reach = True
                            break
                        st_.extend(b_.succs)
                    ok = not reach
                if not ok and g is not f:
                    # the reset may be in the caller, in front of the helper's call
                    for cs in prog.callers_of(g):
                        if cs.fn in cl and any(norm_callee(r.callee) in CODEC_RESET and cs.fn.inst_dominates(r, cs) for r in cs.fn.build().calls()):
                            ok = True
                if ok:
                    chk.ok("K3-statereset", inst, c, "the library state kept in the compressor object is reset before it is used for this block")
                else:
                    chk.violation("K3-statereset", inst, c, "%s works on library state that lives in the compressor object and is not reset "
                                  "in this invocation: what the call before left behind (the history window of the last block any "
                                  "reader unpacked) takes part in unpacking this block" % nm)
    return n


def _same_state(prog, g, a, b):
    ra, rb = resolve_ptr(prog, a, g.unit), resolve_ptr(prog, b, g.unit)
    x, y = strip_casts(ra[0]), strip_casts(rb[0])
    if x is y and ra[1] == rb[1]:
        return True
    if x.is_inst and y.is_inst and x.op == "load" and y.op == "load":
        qa, qb = resolve_ptr(prog, x.ops[0], g.unit), resolve_ptr(prog, y.ops[0], g.unit)
        return strip_casts(qa[0]) is strip_casts(qb[0]) and qa[1] == qb[1]
    return False


def same_bound_rule(chk, prog, units_prefix=("lib/sqfs/src/",)):
    """K12-samebound (a contradiction rule): a reader that compares one of its arguments with a member of the reader more
    than once in a function -- the hit path and the miss path of a cache, typically -- uses the same relation each
    time.  `offset >= used` on one path and `offset > used` on the other means the answer to a query depends on what
    was asked before."""
    n = 0
    strict = {"ult": ("lt", False), "ule": ("le", False), "ugt": ("gt", False), "uge": ("ge", False),
              "slt": ("lt", True), "sle": ("le", True), "sgt": ("gt", True), "sge": ("ge", True)}
    flip = {"lt": "gt", "le": "ge", "gt": "lt", "ge": "le"}
    for f in prog.functions():
        if f.decl or not f.unit.src.startswith(units_prefix) or "/test/" in f.unit.src:
            continue
        groups = {}
        for i in f.build().insts():
            if i.op != "icmp" or i.pred not in strict:
                continue
            rel = strict[i.pred][0]
            a, b = i.ops
            for (x, y, r) in ((a, b, rel), (b, a, flip[rel])):
                ux = x
                while ux.is_inst and ux.op in ("zext", "sext", "trunc"):
                    ux = ux.ops[0]
                uy = y
                while uy.is_inst and uy.op in ("zext", "sext", "trunc"):
                    uy = uy.ops[0]
                if ux.is_arg and uy.is_inst and uy.op == "load":
                    q = strip_casts(uy.ops[0])
                    if q.is_inst and q.op == "getelementptr" and q.field() and strip_casts(resolve_ptr(prog, q, f.unit)[0]).is_arg:
                        groups.setdefault((ux.idx, q.field()), []).append((r, i))
        for (k, fld), lst in sorted(groups.items(), key=lambda kv: (kv[0][0], kv[0][1])):
            if len(lst) < 2:
                continue
            n += 1
            chk.analysed(f)
            inst = "%s:arg%d~%s" % (f.name, k, fld[1])
            # rejecting `x >= F` and accepting `x < F` are one relation; `x > F` / `x <= F` the other
            kinds = {("strict-inside" if r in ("ge", "lt") else "inclusive") for (r, _i) in lst}
            if len(kinds) == 1:
                chk.ok("K12-samebound", inst, lst[0][1], "argument %d is compared with '%s' %d times, every time with the same relation" % (k, fld[1], len(lst)))
            else:
                odd = [i for (r, i) in lst if r in ("gt", "le")] or [lst[-1][1]]
                chk.violation("K12-samebound", inst, odd[0], "argument %d is compared with '%s' with '>=' on one path and with '>' on another: "
                              "whether a position right at '%s' is accepted depends on which path a query takes (what was cached by "
                              "the query before), not on the image and the query" % (k, fld[1], fld[1]))
    return n


def run_pointer_cache(chk, prog, sname, tag, ptr):
    n = 0
    for fn in prog.functions():
        tag_stores = [i for i in fn.insts() if i.op == "store" and field_of_ptr(i.ops[1], sname) == tag]
        ptr_writes = []
        for i in fn.insts():
            if i.op == "store" and field_of_ptr(i.ops[1], sname) == ptr:
                ptr_writes.append(i)
            elif i.op == "call":
                for a in i.ops:
                    if not a.is_const and a.ty.endswith("**") and field_of_ptr(a, sname) == ptr:
                        ptr_writes.append(i)
        frees = [c for c in fn.calls("free") if _loads_field(c.ops[0], sname, ptr)]
        if not tag_stores and not ptr_writes and not frees:
            continue
        frees = [c for c in frees if not base_is_fresh(prog, strip_casts(c.ops[0]).ops[0], fn)]
        if all(base_is_fresh(prog, (i.ops[1] if i.op == "store" else i.ops[0]), fn) for i in tag_stores + ptr_writes) \
                and not frees:
            chk.ok("K9-ptr", "%s:%s" % (fn.name, tag), fn, "writes only a freshly allocated reader", nontrivial=False)
            continue
        if fn.name.endswith("_destroy") and not tag_stores and not ptr_writes:
            continue
        chk.analysed(fn)
        n += 1
        inst = "%s:%s" % (fn.name, tag)
        # (2) consistency dataflow: C consistent (as on entry), Z pointer NULL, X tag changed / payload freed
        frees = [c for c in frees if not base_is_fresh(prog, strip_casts(c.ops[0]).ops[0], fn)]
        evs = {}
        for s_ in tag_stores:
            evs[s_] = "tag"
        for c in frees:
            evs[c] = "free"
        for w in ptr_writes:
            if w.op == "store":
                evs[w] = "null" if (w.ops[0].is_const and w.ops[0].is_null) else "set"
            else:
                evs[w] = "load"
        states = {fn.blocks[0]: frozenset(["C"])}
        work = [fn.blocks[0]]
        outs = {}
        while work:
            b = work.pop(0)
            st = states[b]
            for i in b.insts:
                e = evs.get(i)
                if e in ("tag", "free"):
                    st = frozenset("Z" if x == "Z" else "X" for x in st)
                elif e == "null":
                    st = frozenset(["Z"])
                elif e in ("load", "set"):
                    st = frozenset(["C"])
            outs[b] = st
            for sx in b.succs:
                cur = states.get(sx)
                nv = st if cur is None else cur | st
                if nv != cur:
                    states[sx] = nv
                    if sx not in work:
                        work.append(sx)
        bad = None
        for r in fn.rets():
            if r.bb in outs and "X" in outs[r.bb]:
                bad = r
                break
        if bad is not None:
            chk.violation("K9-ptr", inst, bad, "a path reaches this return after the tag '%s' changed (or the payload was "
                          "freed) without the payload pointer '%s' being replaced or cleared" % (tag, ptr))
        else:
            chk.ok("K9-ptr", inst, fn, "on every path a change of '%s' / free of '%s' is followed by a payload replacement "
                   "or the pointer is NULL (%d events)" % (tag, ptr, len(evs)))
        # (3) out-parameter callee: failure => *out == NULL
        for w in ptr_writes:
            if w.op != "call":
                continue
            name = norm_callee(w.callee)
            g = prog.fn(name, fn.unit) if name else None
            if g is None or g.decl:
                chk.violation("K9-out", inst, w, "payload pointer handed to an unknown callee")
                continue
            g.build()
            chk.analysed(g)
            idx = [k for k, a in enumerate(w.ops) if not a.is_const and a.ty.endswith("**") and field_of_ptr(a, sname) == ptr][0]
            ok, where = out_param_null_on_failure(prog, g, idx)
            if ok:
                chk.ok("K9-out", "%s:%s via %s" % (fn.name, ptr, g.name), w,
                       "%s stores NULL through its out-parameter before every failing return" % g.name)
            else:
                chk.violation("K9-out", "%s:%s via %s" % (fn.name, ptr, g.name), where or w, fn=fn.name, detail=
                              "%s can return an error while the out-parameter still holds a (freed or partial) block: the "
                              "cache keeps a payload for a key it was never loaded for" % g.name)
        ev = {i: ("payload", True) for i in ptr_writes}
        hit_test(chk, prog, fn, sname, tag, ptr, ev)
    return n


def _loads_field(v, sname, field):
    v = strip_casts(v)
    return v.is_inst and v.op == "load" and field_of_ptr(v.ops[0], sname) == field


def _followed_on_all_paths(fn, start, targets):
    """every path from instruction `start` to a return passes an instruction in targets"""
    tb = {}
    for t in targets:
        tb.setdefault(t.bb, []).append(t.pos)
    if any(p > start.pos for p in tb.get(start.bb, [])):
        return True
    seen = set()
    stack = list(start.bb.succs)
    if not start.bb.succs:
        return False
    while stack:
        b = stack.pop()
        if b in seen:
            continue
        seen.add(b)
        if b in tb:
            continue
        if not b.succs:
            return False
        stack.extend(b.succs)
    return True


def out_param_null_on_failure(prog, g, idx):
    """dataflow on g: last store through parameter idx is NULL at every return that may be non-zero"""
    par = g.params[idx]

    def is_out_store(i):
        return i.op == "store" and strip_casts(i.ops[1]) is par
    # values the function hands back: where one of them is known to be 0 the function succeeds, whatever it left in *out
    rvals = set()
    for r in g.rets():
        if r.ops:
            st_ = [r.ops[0]]
            while st_:
                x = strip_casts(st_.pop())
                if x.is_inst and x.op == "phi":
                    st_.extend(x.ops)
                elif not x.is_const:
                    rvals.add(id(x))
    states = {g.blocks[0]: frozenset(["init"])}
    work = [g.blocks[0]]
    outs = {}
    while work:
        b = work.pop(0)
        st = states[b]
        for i in b.insts:
            if is_out_store(i):
                v = i.ops[0]
                st = frozenset(["null"]) if (v.is_const and v.is_null) else frozenset(["value"])
        outs[b] = st
        for s in b.succs:
            # refinement: edge where *out (just loaded) is known NULL
            e = st
            t = b.term
            if t.op == "br" and len(t.x["succ"]) == 2:
                c = t.ops[0]
                if c.is_inst and c.op == "icmp" and c.pred in ("eq", "ne") and any(o.is_const and o.is_null for o in c.ops):
                    o = [x for x in c.ops if not (x.is_const and x.is_null)]
                    if o and strip_casts(o[0]).is_inst and strip_casts(o[0]).op == "load" and \
                            strip_casts(strip_casts(o[0]).ops[0]) is par:
                        isnull_edge = (s is t.x["succ"][0]) == (c.pred == "eq")
                        if isnull_edge:
                            e = frozenset(["null"])
                if c.is_inst and c.op == "icmp" and c.pred in ("eq", "ne") and c.ops[1].is_const and c.ops[1].is_int and \
                        c.ops[1].sval == 0 and id(strip_casts(c.ops[0])) in rvals:
                    if (s is t.x["succ"][0]) == (c.pred == "eq"):
                        e = frozenset(["succ"])        # the status is 0 on this edge
            cur = states.get(s)
            nv = e if cur is None else cur | e
            if nv != cur:
                states[s] = nv
                if s not in work:
                    work.append(s)
    for r in g.rets():
        if not r.ops or r.bb not in outs:
            continue
        v = r.ops[0]
        cands = []
        if v.is_inst and v.op == "phi" and v.bb is r.bb:
            for val, pred in zip(v.ops, v.x["inc"]):
                if val.is_const and val.is_int and val.sval == 0:
                    continue
                cands.append((pred, outs.get(pred, frozenset())))
        elif not (v.is_const and v.is_int and v.sval == 0):
            cands.append((r.bb, outs[r.bb]))
        for b, st in cands:
            if not st <= frozenset(["null", "succ"]):
                return False, b.term
    return True, None


def cursor_restore(chk, prog):
    """C10-c: callers of the helper that saves the kv position and seeks to an out-of-line value must seek back on
    the success path when the out-of-line flag is set"""
    unit = prog.by_src.get("lib/sqfs/src/xattr/xattr_reader.c")
    if unit is None:
        raise AnalysisBroken("xattr_reader.c not in libsquashfs")
    helpers = []
    for f in unit.functions.values():
        if f.decl:
            continue
        f.build()
        names = [norm_callee(c.callee) for c in f.calls()]
        if "sqfs_meta_reader_get_position" in names and "sqfs_meta_reader_seek" in names:
            helpers.append(f)
    if not helpers:
        chk.broke("no function saving the kv position (get_position + seek) found in xattr_reader.c")
        return
    n = 0
    for h in helpers:
        for c in prog.callers_of(h):
            f = c.fn
            chk.analysed(f)
            n += 1
            # blocks containing a seek call after c, and edges where (type & OOL) == 0
            seek_blocks = {s.bb for s in f.calls("sqfs_meta_reader_seek")}
            ok = True
            bad_ret = None
            # find success returns
            succ_preds = []
            for r in f.rets():
                v = r.ops[0]
                if v.is_inst and v.op == "phi" and v.bb is r.bb:
                    for val, pred in zip(v.ops, v.x["inc"]):
                        if val.is_const and val.is_int and val.sval == 0:
                            succ_preds.append(pred)
                elif v.is_const and v.is_int and v.sval == 0:
                    succ_preds.append(r.bb)
            # search from the call's block for a path to a success pred avoiding seek blocks and flag-false edges
            seen = set()
            stack = [c.bb]
            while stack:
                b = stack.pop()
                if b in seen:
                    continue
                seen.add(b)
                if b in seek_blocks and b is not c.bb:
                    continue
                if b in succ_preds:
                    ok = False
                    bad_ret = b
                    break
                t = b.term
                nxt = list(b.succs)
                if t.op == "br" and len(t.x["succ"]) == 2:
                    cond = t.ops[0]
                    # flag test: icmp ne (and (load key->type), C), 0
                    if cond.is_inst and cond.op == "icmp" and cond.pred in ("ne", "eq") and \
                            cond.ops[1].is_const and cond.ops[1].is_int and cond.ops[1].sval == 0:
                        a = cond.ops[0]
                        if a.is_inst and a.op == "and":
                            ld = [x for x in backward_slice(a) if x.is_inst and x.op == "load"]
                            if any(strip_casts(x.ops[0]).is_inst and strip_casts(x.ops[0]).op == "getelementptr" and
                                   strip_casts(x.ops[0]).fields() and strip_casts(x.ops[0]).fields()[-1][1] == "type" for x in ld):
                                # the edge where the flag is clear needs no seek
                                clear = t.x["succ"][1] if cond.pred == "ne" else t.x["succ"][0]
                                nxt = [s for s in b.succs if s is not clear]
                stack.extend(nxt)
            inst = "%s:restore after %s" % (f.name, h.name)
            if ok:
                chk.ok("K1-cursor", inst, c, "every success path with the out-of-line flag set passes sqfs_meta_reader_seek")
            else:
                chk.violation("K1-cursor", inst, bad_ret.term,
                              "a success return is reachable after %s with the out-of-line flag set without seeking back to "
                              "the saved key/value position: the next key is read from the out-of-line location" % h.name)
    return n


def who_writes_reader_state(chk, prog):
    """C10-d: stores to reader structs happen only in constructor / load / copy / the cache functions"""
    allowed_suffix = ("_create", "_copy", "_load", "_destroy")
    cache_fns = set()
    for sname, tag, payload in ARRAY_CACHES:
        for fn in prog.functions():
            if payload_events(prog, fn, sname, tag, payload):
                cache_fns.add(fn)
    n = 0

    def set_up_fn(g, depth=0, _seen=None):
        """constructor / load / copy, or a static helper that only such functions call"""
        if g.name.endswith(allowed_suffix) or g.name.startswith(("sqfs_xattr_reader_load", "sqfs_data_reader_load")):
            return True
        if not g.internal or depth > 3:
            return False
        _seen = _seen if _seen is not None else set()
        if g in _seen:
            return False
        _seen.add(g)
        cs = prog.callers_of(g)
        if not cs or any(g in impls for impls in prog.slots.values()):
            return False
        return all(set_up_fn(c.fn, depth + 1, _seen) for c in cs)

    for fn in prog.functions():
        for i in fn.insts():
            if i.op != "store":
                continue
            for sname in READER_STATE:
                f = field_of_ptr(i.ops[1], sname)
                if f is None:
                    continue
                n += 1
                inst = "%s:%s.%s" % (fn.name, sname.split(".")[-1], f)
                if base_is_fresh(prog, i.ops[1], fn) or set_up_fn(fn):
                    chk.ok("K2-state", inst, i, "constructor / load / copy", nontrivial=False)
                elif fn in cache_fns:
                    chk.ok("K2-state", inst, i, "cache function covered by K9")
                elif f in READER_STATE[sname]:
                    chk.ok("K2-state", inst, i, "documented per-request cursor: " + READER_STATE[sname][f])
                elif any(fn.name == x for x in ("precache_data_block", "precache_fragment_block")) or \
                        any(t[0] == sname and f in (t[1], t[2]) for t in POINTER_CACHES):
                    chk.ok("K2-state", inst, i, "cache function covered by K9-ptr")
                else:
                    chk.violation("K2-state", inst, i, "reader field '%s' is written outside constructor/load/copy and the "
                                  "cache functions: new history-carrying state" % f)
    return n


ZEROING = {"calloc", "alloc_array", "alloc_flex"}
DEST_ARGS = {"memcpy": 0, "memmove": 0}


def _dest_arg_index(call):
    sc = slot_call(call)
    if sc == ("struct.sqfs_file_t", "read_at"):
        return 2
    if sc == ("struct.sqfs_compressor_t", "do_block"):
        return 3
    return DEST_ARGS.get(norm_callee(call.callee))


def fresh_buffer_rule(chk, prog):
    """K9-fresh: a cached block is (re)loaded into a buffer that was zero-allocated for this very load with the full
    block capacity.  Consumers copy up to block_size bytes out of the cache whatever the loaded length was, so an
    in-place refill (or a shorter / non-zeroed allocation) serves bytes of another key or reads past the buffer."""
    from ..copyflow import Summaries
    summ = Summaries(prog)
    n = 0
    for (sname, tag, ptr) in POINTER_CACHES:
        for fn in prog.functions():
            # (1) out-parameter helpers: called with &cache->ptr
            for c in fn.calls():
                idx = [k for k, a in enumerate(c.ops) if not a.is_const and getattr(a, "ty", "").endswith("**")
                       and field_of_ptr(a, sname) == ptr]
                if not idx or not c.callee:
                    continue
                g = prog.fn(c.callee, fn.unit)
                if g is None or g.decl:
                    continue
                g.build()
                par = g.params[idx[0]]
                n += 1
                inst = "%s:%s via %s" % (fn.name, ptr, g.name)
                allocs = [i for i in g.insts() if i.op == "store" and strip_casts(i.ops[1]) is par and
                          not (i.ops[0].is_const and i.ops[0].is_null)]
                verdict = None
                for w in g.insts():
                    if w.op != "call":
                        continue
                    k = _dest_arg_index(w)
                    if k is None or k >= len(w.ops):
                        continue
                    d = strip_casts(resolve_ptr(prog, w.ops[k], g.unit)[0])
                    if not (d.is_inst and d.op == "load" and strip_casts(d.ops[0]) is par):
                        continue
                    dom = [a for a in allocs if g.inst_dominates(a, w)]
                    ok = False
                    for a in dom:
                        v = strip_casts(a.ops[0])
                        if v.is_inst and v.op == "call" and norm_callee(v.callee) in ZEROING and \
                                any(x.is_arg for arg in v.ops for x in backward_slice(arg)):
                            cap_args = {x.idx for arg in v.ops for x in backward_slice(arg) if x.is_arg}
                            # the capacity parameter must also be what the caller passes as block size
                            ok = True
                    if not ok:
                        verdict = w
                if verdict is None and allocs:
                    chk.ok("K9-fresh", inst, c, "%s fills a buffer it zero-allocated with the capacity parameter in the same call" % g.name)
                else:
                    chk.violation("K9-fresh", inst, verdict or c, fn=fn.name, detail=
                                  "%s writes the block into a buffer that is not a fresh zero-initialised allocation of the "
                                  "full block capacity: readers of the cache copy up to block_size bytes and would get stale "
                                  "bytes or read past the allocation" % g.name)
            # (2) in-place refill: the loaded payload pointer is handed to something that writes through it
            for i in fn.insts():
                if not (i.op == "load" and field_of_ptr(i.ops[0], sname) == ptr and i.ty.endswith("*")):
                    continue
                if base_is_fresh(prog, i.ops[0], fn):
                    continue
                for u in fn.uses.get(i, []):
                    if u.op != "call":
                        continue
                    k = _dest_arg_index(u)
                    writes = False
                    if k is not None and k < len(u.ops) and strip_casts(u.ops[k]) is i:
                        writes = True
                    elif u.callee:
                        g = prog.fn(u.callee, fn.unit)
                        if g is not None and not g.decl:
                            for ai, a in enumerate(u.ops):
                                if strip_casts(a) is i and summ.writes_through(g.build(), ai) and \
                                        norm_callee(u.callee) not in ("free",):
                                    writes = True
                    if not writes:
                        continue
                    n += 1
                    inst = "%s:%s in-place" % (fn.name, ptr)
                    cleared = any(m.op == "call" and norm_callee(m.callee) == "memset" and strip_casts(m.ops[0]) is i and
                                  fn.inst_dominates(m, u) for m in fn.insts())
                    if cleared:
                        chk.ok("K9-fresh", inst, u, "buffer is cleared in full before it is refilled")
                    else:
                        chk.violation("K9-fresh", inst, u, "the cached buffer '%s' is refilled in place without being cleared: "
                                      "bytes behind a shorter block still belong to the previously cached key" % ptr)
    return n


def escape_rule(chk, prog):
    """K2-escape: no pointer into a cache payload is stored anywhere (another object, an out-parameter): the cache
    may be refilled or freed by any later query, so whoever kept the pointer would read another key's bytes"""
    caches = [(s, p, True) for (s, _t, p) in POINTER_CACHES] + [(s, pl[0], False) for (s, _t, pl) in ARRAY_CACHES]
    n = 0
    for fn in prog.functions():
        roots = []
        for i in fn.insts():
            for (sname, field, isptr) in caches:
                if isptr and i.op == "load" and field_of_ptr(i.ops[0], sname) == field and i.ty.endswith("*"):
                    if not base_is_fresh(prog, i.ops[0], fn):
                        roots.append((i, sname, field))
                elif (not isptr) and i.op == "getelementptr" and i.fields() and i.fields()[-1][1] == field and \
                        (i.fields()[-1][0] == sname or i.fields()[-1][0].startswith(sname + ".")):
                    if not base_is_fresh(prog, i, fn):
                        roots.append((i, sname, field))
        for (r, sname, field) in roots:
            n += 1
            chk.analysed(fn)
            # forward closure through address arithmetic
            seen, stack, bad = set(), [r], None
            while stack and bad is None:
                v = stack.pop()
                if id(v) in seen:
                    continue
                seen.add(id(v))
                for u in fn.uses.get(v, []):
                    if u.op in ("getelementptr", "bitcast", "phi", "select") and (u.op != "getelementptr" or u.ops[0] is v):
                        stack.append(u)
                    elif u.op == "store" and u.ops[0] is v:
                        # storing it back into the very same cache field is the cache's own business
                        if field_of_ptr(u.ops[1], sname) == field:
                            continue
                        b = resolve_ptr(prog, u.ops[1], fn.unit)[0]
                        if b.is_inst and b.op == "alloca" and not any(
                                x.op == "call" for x in fn.uses.get(b, [])):
                            stack.extend(l for l in fn.uses.get(b, []) if l.op == "load")
                            continue
                        bad = u
                    elif u.op == "ret":
                        bad = u
            inst = "%s:%s.%s@%d" % (fn.name, sname.split(".")[-1], field, r.line)
            if bad is None:
                chk.ok("K2-escape", inst, r, "pointer into the cached block is only read from / copied out of")
            else:
                chk.violation("K2-escape", inst, bad, "a pointer into the cached block '%s' is kept beyond this request "
                              "(stored or returned): a later query that refills or frees the cache changes the bytes behind "
                              "it" % field)
    return n


def unique_key_rule(chk, prog):
    """K9-key: the data block cache is keyed by the block's on-disk location alone.  A sparse block occupies no bytes, so it
    has the same location as the data block that follows it: it must never be looked up in (or put into) that cache.
    Every call of the function that compares / sets the tag 'current_block' is guarded by a test that the block word's
    on-disk size is not zero."""
    fills = []
    for f in prog.functions():
        if f.decl or f.unit.src != "lib/sqfs/src/data_reader.c":
            continue
        f.build()
        st = any(i.op == "store" and (field_of_ptr(i.ops[1], "struct.sqfs_data_reader_t") == "current_block") for i in f.insts())
        ld = any(i.op == "load" and (field_of_ptr(i.ops[0], "struct.sqfs_data_reader_t") == "current_block") for i in f.insts())
        if st and ld:
            fills.append(f)
    if not fills:
        chk.broke("no function maintaining the data block cache tag (current_block) found")
        return
    n = 0

    def nonsparse_guard(f, bb):
        for (cond, outcome, br) in f.guards_at(bb):
            if not (cond.is_inst and cond.op == "icmp" and cond.ops[1].is_const and cond.ops[1].is_int and cond.ops[1].sval == 0):
                continue
            a = cond.ops[0]
            while a.is_inst and a.op in ("zext", "sext", "trunc"):
                a = a.ops[0]
            if a.is_inst and a.op == "and" and any(o.is_const and o.is_int and o.uval == 0xFFFFFF for o in a.ops):
                if (cond.pred == "ne") == (outcome is True):
                    return True
        return False
    # every comparison of the tag with a key and every store of a new key sits under the test -- in the function itself,
    # or at every place the function is called from
    def guarded(f, bb, depth=0):
        if nonsparse_guard(f, bb):
            return True
        if depth >= 2:
            return False
        sites = [c for c in prog.callers_of(f) if c.fn.unit.src == f.unit.src]
        return bool(sites) and all(guarded(c.fn.build(), c.bb, depth + 1) for c in sites)
    for f in prog.functions():
        if f.decl or f.unit.src != "lib/sqfs/src/data_reader.c":
            continue
        f.build()
        for i in f.insts():
            kind = None
            if i.op == "icmp" and i.pred in ("eq", "ne") and any(
                    x.is_inst and x.op == "load" and field_of_ptr(x.ops[0], "struct.sqfs_data_reader_t") == "current_block"
                    for o in i.ops for x in [o] + list(backward_slice(o, phi_control=False, limit=10))):
                kind = "lookup"
            elif i.op == "store" and field_of_ptr(i.ops[1], "struct.sqfs_data_reader_t") == "current_block" and \
                    not i.ops[0].is_const and not base_is_fresh(prog, i.ops[1], f):
                kind = "fill"
            if kind is None:
                continue
            n += 1
            chk.analysed(f)
            inst = "%s:%s@%d" % (f.name, kind, i.line)
            if guarded(f, i.bb):
                chk.ok("K9-key", inst, i, "the location-keyed cache is %s only for blocks with a non-zero on-disk size (here or at every "
                       "call site)" % ("consulted" if kind == "lookup" else "filled"))
            else:
                chk.violation("K9-key", inst, i, "the location-keyed block cache is %s for a block that may be sparse: a hole has the "
                              "location of the data block behind it, so one of the two is answered with the other's bytes depending "
                              "on what was read before" % ("looked up" if kind == "lookup" else "filled"))
    return n


def run(chk):
    prog = load_program("libsquashfs.la")
    chk.explanation = (
        "K9 cache tag/payload coherence on the libsquashfs readers, decided on LLVM IR: for the meta reader's "
        "one-block cache a 4-state dataflow (valid-old / invalidated / dirty / valid-new) over every function that "
        "writes the cached block proves no return is reached with the payload overwritten while the tag still names "
        "the previous block; for the data reader's pointer caches: tag change or free is followed by payload "
        "replacement on all paths and the out-parameter callee stores NULL before every failing return; cache-hit "
        "returns are guarded by tag (and pointer) tests; the xattr value readers seek back to the saved position "
        "on every success path with the out-of-line flag; no other history-carrying reader field exists. Static helpers are "
        "part of their callers (summaries). K12-samebound: an argument compared with a reader member more than once in a "
        "function is compared with the same relation (hit and miss path answer alike); K9-copytag: a copy hook that takes "
        "the cache tag over takes the payload over too.")
    chk.assumptions = ["agreement between stream / positional / per-block APIs is not decided (value-level)"]
    n = 0
    for sname, tag, payload in ARRAY_CACHES:
        prog.field_index(sname, tag)
        for p in payload:
            prog.field_index(sname, p)
        n += run_array_cache(chk, prog, sname, tag, payload)
    for sname, tag, ptr in POINTER_CACHES:
        prog.field_index(sname, tag)
        prog.field_index(sname, ptr)
        run_pointer_cache(chk, prog, sname, tag, ptr)
    cursor_restore(chk, prog)
    who_writes_reader_state(chk, prog)
    escape_rule(chk, prog)
    chk.floor("K2-escape", 10)
    fresh_buffer_rule(chk, prog)
    chk.floor("K9-fresh", 2)
    unique_key_rule(chk, prog)
    chk.floor("K9-key", 1)
    copy_tag_rule(chk, prog)
    chk.floor("K9-copytag", 1)
    codec_state_rule(chk, prog)
    codec_scalar_out_rule(chk, prog)
    chk.floor("K3-libout", 4)
    chk.floor("K3-statereset", 1)
    same_bound_rule(chk, prog)       # instances come and go with the code's structure: the controls keep the rule honest
    chk.floor("K9-array", 2)
    chk.floor("K9-ptr", 2)
    chk.floor("K9-out", 2)
    chk.floor("K13-hit", 3)
    chk.floor("K1-cursor", 2)
    chk.floor("K2-state", 15)
    controls(chk)


def controls(chk):
    from ..controls import control_program
    from ..report import Check
    prog = control_program("c10_controls.c")
    sub = Check("C10-control", chk.tier)
    run_array_cache(sub, prog, "struct.ctl_meta_t", "block_offset", ("data", "data_used"))
    run_pointer_cache(sub, prog, "struct.ctl_data_t", "current_block", "data_block")
    got = {(o["rule"], o["function"]) for o in sub.obl if o["verdict"] == "VIOLATED"}
    chk.control("K9-array", ("K9-array", "ctl_seek_stale") in got, "payload overwritten, error return, tag not invalidated")
    chk.control("K9-out", ("K9-out", "ctl_precache_bad") in got, "out-parameter keeps a block on failure")
    chk.control("K13-hit", ("K13-hit", "ctl_precache_nohit") in got, "hit path without tag test")
    sub2 = Check("C10-control", chk.tier)
    same_bound_rule(sub2, prog, units_prefix=("c10_controls.c",))
    got2 = {(o["rule"], o["function"]) for o in sub2.obl if o["verdict"] == "VIOLATED"}
    chk.control("K12-samebound", ("K12-samebound", "ctl_seek_two_bounds") in got2, "'>' on the hit path, '>=' on the miss path")
    chk.control("K12-samebound/silent", ("K12-samebound", "ctl_seek_one_bound") not in got2, "the same relation spelled two ways")
    chk.control("silent-on-good", not any(fn in ("ctl_seek_good", "ctl_precache_good") for (_r, fn) in got),
                "correct functions must not be reported")
