"""C02 -- determinism: worker confinement (K3), who-writes (K2), no environment input (K2/K13), sibling agreement."""
from ..ir import load_program, strip_casts, norm_callee, ExternFn
from ..build import AnalysisBroken
from ..util import resolve_ptr, backward_slice, const_int
from ..effects import slot_call, fields_in_slice, Effects

MAIN_STRUCTS = ("struct.sqfs_block_processor_t", "struct.block_writer_default_t", "struct.sqfs_frag_table_t",
                "struct.sqfs_block_writer_t", "struct.hash_table", "struct.array_t")
FORBIDDEN_SLOTS = ("struct.sqfs_file_t", "struct.sqfs_ostream_t", "struct.sqfs_istream_t", "struct.sqfs_block_writer_t",
                   "struct.thread_pool_t")
FORBIDDEN_PREFIX = ("hash_table_", "sqfs_frag_table_", "array_", "sqfs_block_processor_", "sqfs_block_writer_", "str_table_")
WORKER_LIBC_OK = {"memcpy", "memset", "memcmp", "memmove", "malloc", "calloc", "free", "realloc", "__assert_fail",
                  # codec libraries
                  "deflate", "deflateReset", "inflate", "inflateReset", "deflateInit2_", "inflateInit_", "deflateEnd",
                  "inflateEnd", "lzma_stream_buffer_encode", "lzma_stream_buffer_decode", "lzma_lzma_preset",
                  "lzma_alone_encoder", "lzma_alone_decoder", "lzma_code", "lzma_end", "lzma_memusage",
                  "LZ4_compress_default", "LZ4_compress_HC", "LZ4_decompress_safe",
                  "ZSTD_compressCCtx", "ZSTD_decompress", "ZSTD_isError", "ZSTD_compressBound"}
CODEC_STRUCTS = ("struct.z_stream_s", "struct.lzma_", "struct.ZSTD_", "struct.LZ4_", "struct.bz_stream", "struct.lzo")
ENV_CALLS = {"time", "gettimeofday", "clock_gettime", "rand", "random", "srand", "srandom", "getpid", "getppid", "getenv",
             "secure_getenv", "localtime", "localtime_r", "gmtime", "gmtime_r", "strftime", "setlocale", "umask", "getcwd",
             "readdir", "readdir64", "scandir", "sched_getaffinity", "sysconf", "get_nprocs", "gethostname", "uname",
             "getuid", "geteuid", "getgid", "getegid", "ttyname", "isatty"}
# (function, call) sites where an environment query is the documented input
ENV_ALLOWED = {
    ("get_source_date_epoch", "getenv"): "SOURCE_DATE_EPOCH is the documented reproducibility input",
    ("os_get_num_jobs", "sched_getaffinity"): "default job count; shown below to reach only the worker count",
    ("process_command_line", "isatty"): "refusing to write an archive to a terminal",
}
SEQ_FIELDS = ("io_seq_num", "io_deq_seq_num", "backlog", "frag_block", "fblk_in_flight", "blk_current", "free_list",
              "io_queue", "current_frag", "cached_frag_blk")
POOL_SLOTS = ("destroy", "get_worker_count", "set_worker_ptr", "submit", "dequeue", "get_status")


def worker_entries(prog):
    ent = set()
    for f in prog.functions():
        for c in f.calls():
            if norm_callee(c.callee) in ("thread_pool_create", "thread_pool_create_serial"):
                for a in c.ops:
                    for t in prog.fn_targets(a, f.unit):
                        if not isinstance(t, ExternFn):
                            ent.add(t.build())
    return ent


def _local_object(prog, f, p, depth=0):
    """the pointer names an object that lives on the stack of this invocation: a local of f, or (f a static helper) a local of
    every caller that is handed down"""
    root = strip_casts(resolve_ptr(prog, p, f.unit)[0])
    if root.is_inst and root.op == "alloca":
        return True
    if root.is_arg and f.internal and depth < 2:
        cs = prog.callers_of(f)
        if cs and all(root.idx < len(c.ops) and _local_object(prog, c.fn.build(), c.ops[root.idx], depth + 1) for c in cs):
            return True
    return False


def rule_a_confinement(chk, prog):
    ents = worker_entries(prog)
    if not ents:
        chk.broke("no worker function bound to thread_pool_create found")
        return set()
    reach, ext, unres = prog.reachable_from(ents)
    chk.note("worker entry: %s; functions reachable from it: %d" % (sorted(e.name for e in ents), len(reach)))
    for u in unres:
        chk.broke("unresolved indirect call in worker-reachable code at %s" % u.loc)
    for f in sorted(reach, key=lambda f: f.qname):
        chk.analysed(f)
        bad = None
        for i in f.insts():
            if i.op == "call":
                sc = slot_call(i)
                nm = norm_callee(i.callee)
                if sc is not None and sc[0] in FORBIDDEN_SLOTS:
                    bad = (i, "calls through %s.%s" % sc)
                elif nm and nm.startswith(FORBIDDEN_PREFIX) and prog.fn(nm, f.unit) is not None:
                    bad = (i, "calls %s (bookkeeping that belongs to the submitting thread)" % nm)
                elif nm and prog.fn(nm, f.unit) is None and not nm.startswith("llvm.") and nm not in WORKER_LIBC_OK and \
                        not nm.startswith(("deflate", "inflate", "lzma_", "LZ4_", "ZSTD_", "BZ2_", "lzo1x_")):
                    bad = (i, "calls %s, which is outside the worker allow-list (memory functions and codec libraries)" % nm)
            elif i.op in ("load", "store"):
                p = strip_casts(i.ops[0] if i.op == "load" else i.ops[1])
                if p.is_inst and p.op == "getelementptr":
                    for (s_, n_) in p.fields():
                        if s_.startswith(MAIN_STRUCTS):
                            bad = (i, "touches %s.%s" % (s_.replace("struct.", ""), n_))
                if i.op == "store" and p.is_inst and p.op == "getelementptr" and p.fields():
                    s0 = p.fields()[0][0]
                    if not (s0.startswith("struct.sqfs_block_t") or s0.startswith(CODEC_STRUCTS)) and \
                            not _local_object(prog, f, p):
                        bad = (i, "stores into %s.%s, state that outlives the work item (per-worker context or compressor "
                                  "object): what a worker does with a block then depends on the blocks it happened to get before"
                               % (s0.replace("struct.", ""), p.fields()[0][1]))
                if i.op == "store" and p.is_const and p.gname:
                    g = f.unit.globals.get(p.gname)
                    if g is not None and not g.get("const"):
                        bad = (i, "writes the global variable %s" % p.gname)
        inst = f.name
        if bad is None:
            chk.ok("K3-worker", inst, f, "no I/O, no dedup/fragment bookkeeping, no shared state, no global writes")
        else:
            chk.violation("K3-worker", inst, bad[0], "code run by worker threads %s: output offsets or dedup decisions would "
                          "depend on the order in which workers finish" % bad[1])
    return reach


def rule_b_seq(chk, prog, reach):
    n = 0
    for f in prog.functions():
        for i in f.insts():
            if i.op != "store":
                continue
            p = strip_casts(i.ops[1])
            if not (p.is_inst and p.op == "getelementptr" and p.field()):
                continue
            s_, n_ = p.field()
            if n_ in SEQ_FIELDS and (s_.startswith("struct.sqfs_block_processor_t") or
                                     (s_.startswith("struct.sqfs_block_t") and n_ == "io_seq_num")):
                n += 1
                inst = "%s:%s" % (f.name, n_)
                if f in reach:
                    chk.violation("K2-seq", inst, i, "order-relevant state '%s' is written in worker-reachable code" % n_)
                else:
                    chk.ok("K2-seq", inst, i, "written on the submitting thread only", nontrivial=False)
    return n


def rule_seqstamp(chk, prog):
    """K11-seqstamp: the block writer lays blocks out in the order of their I/O sequence numbers, and a file's data blocks
    take theirs when they leave the pool.  A fragment block that is submitted from the backend, in the middle of that
    stream, must be written before the data blocks that leave the pool after its submission -- so it takes its number
    at the moment it is handed to enqueue_block(), not when it comes back: every such hand-over is dominated by a store
    to that block's io_seq_num."""
    n = 0
    from ..anchors import submitter
    subs = submitter(prog)
    names = {f.name for f in subs}
    for f in prog.functions():
        if f.decl or not f.unit.src.startswith("lib/sqfs/src/block_processor/"):
            continue
        f.build()
        for c in f.calls():
            t = prog.fn(c.callee or "", f.unit) if c.callee else None
            if t is None or t.name not in names or len(c.ops) < 2:
                continue
            blk = strip_casts(c.ops[1])
            src = [x for x in backward_slice(blk, phi_control=False, limit=40) if x.is_inst and x.op == "load" and
                   strip_casts(x.ops[0]).is_inst and strip_casts(x.ops[0]).op == "getelementptr" and strip_casts(x.ops[0]).field() and
                   strip_casts(x.ops[0]).field()[1] == "frag_block"]
            if not src and not (blk.is_inst and blk.op == "load" and False):
                continue
            n += 1
            chk.analysed(f)
            inst = "%s:frag_block->%s@%d" % (f.name, t.name, c.line)
            stamped = False
            for i in f.insts():
                if i.op != "store":
                    continue
                q = strip_casts(i.ops[1])
                if q.is_inst and q.op == "getelementptr" and q.field() and q.field()[1] == "io_seq_num" and \
                        q.field()[0].startswith("struct.sqfs_block_t") and f.inst_dominates(i, c):
                    base = strip_casts(q.ops[0])
                    def from_frag(v):
                        vs = [v] + list(backward_slice(v, phi_control=False, limit=40))
                        return any(x.is_inst and x.op == "load" and strip_casts(x.ops[0]).is_inst and
                                   strip_casts(x.ops[0]).op == "getelementptr" and strip_casts(x.ops[0]).field() and
                                   strip_casts(x.ops[0]).field()[1] == "frag_block" for x in vs)
                    if base is blk or from_frag(base):
                        stamped = True
            if stamped:
                chk.ok("K11-seqstamp", inst, c, "the fragment block takes its I/O sequence number when it is submitted")
            else:
                chk.violation("K11-seqstamp", inst, c, "the fragment block is submitted without an I/O sequence number of its own: "
                              "it is numbered when it comes back from the pool, behind data blocks that were numbered in the "
                              "meantime, and is written into the middle of a file's block run")
    return n


STICKY_SETTERS = {"deflateParams", "ZSTD_CCtx_setParameter", "ZSTD_CCtx_setPledgedSrcSize", "lzma_filters_update",
                  "LZ4_resetStream", "deflateSetDictionary", "deflateTune"}
CODEC_RUN = {"deflate", "ZSTD_compress2", "ZSTD_compressCCtx", "lzma_code", "BZ2_bzCompress", "LZ4_compress_fast_continue"}


def rule_codec_params(chk, prog):
    """K3-params: the bytes a worker's compressor produces for a block depend on the block and the configuration only.
    Library parameters that survive a reset of the stream (deflateParams ...) are therefore set either on every
    compressing path of do_block or on none, *for one and the same configuration*: among the paths that reach the
    library's compression call under the same outcomes of the conditions on the compressor object's own fields, the
    ones that set such a parameter (directly or in a helper) and the ones that do not must not both exist -- otherwise a
    block is compressed with whatever the previous block of that worker left behind."""
    from .c13 import _e7_walk
    n = 0

    class _S:
        pass
    for f in sorted(prog.slot_impls(("struct.sqfs_compressor_t", "do_block")), key=lambda x: x.qname):
        if f.decl:
            continue
        f.build()
        runs = [c for c in f.calls() if norm_callee(c.callee) in CODEC_RUN]
        if not runs:
            continue

        def sets_sticky(c, depth=0):
            nm = norm_callee(c.callee)
            if nm in STICKY_SETTERS:
                return True
            if c.callee and depth < 3:
                t = prog.fn(c.callee, f.unit)
                if t is not None and not t.decl and t.unit is f.unit:
                    t.build()
                    return any(sets_sticky(x, depth + 1) for x in t.calls())
            return False
        if not any(sets_sticky(c) for c in f.calls()):
            continue
        n += 1
        chk.analysed(f)
        obj = f.params[0]

        def config_cond(cond, depth=0):
            """the condition looks at fields of the compressor object only"""
            while cond.is_inst and cond.op in ("zext", "trunc") and cond.ops[0].is_inst:
                cond = cond.ops[0]          # a bool local: i1 widened to i8 and narrowed again
            if cond.is_inst and cond.op == "phi" and cond.ty == "i1" and depth < 3:
                # a remembered `a && b` / `a || b`: every part, and every test that selects between the parts, is one
                if not all(o.is_const or config_cond(o, depth + 1) for o in cond.ops):
                    return False
                d = f.idom.get(cond.bb)
                if d is None:
                    return False
                region = [b for b in f.blocks if b is not cond.bb and f.dominates(d, b) and f.reaches(b, cond.bb)]
                for b in region:
                    t = b.term
                    if t.op == "br" and len(t.x["succ"]) == 2 and not config_cond(t.ops[0], depth + 1):
                        return False
                    if any(i.op in ("call", "store") for i in b.insts if b is not d):
                        return False
                return True
            sl = [cond] + list(backward_slice(cond, phi_control=False, limit=60))
            insts = [x for x in sl if x.is_inst]
            if any(x.op in ("call", "phi") for x in insts):
                return False
            for x in insts:
                for o in x.ops:
                    if o.is_arg and o is not obj:
                        return False
            loads = [x for x in insts if x.op == "load"]
            if not loads:
                return False
            for ld in loads:
                b0 = strip_casts(resolve_ptr(prog, ld.ops[0], f.unit)[0])
                if b0 is not obj:
                    return False
            return True
        st = _S()
        st.bb = f.blocks[0]
        groups = {}
        for (v, r, path) in _e7_walk(prog, f, st, None, [], set()):
            if not any(c.bb in path for c in runs):
                continue
            cut = max(path.index(c.bb) for c in runs if c.bb in path)
            sig = []
            for k in range(cut):
                b = path[k]
                t = b.term
                if t.op == "br" and len(t.x["succ"]) == 2 and config_cond(t.ops[0]):
                    sig.append((t.line, t.col if hasattr(t, "col") else 0, path[k + 1] is t.x["succ"][0]))
            called = any(sets_sticky(c) for b in path[:cut + 1] for c in b.insts if c.op == "call")
            groups.setdefault(tuple(sig), set()).add(called)
        mixed = [sig for sig, vals in groups.items() if len(vals) == 2]
        inst = "%s:sticky-parameters" % f.name
        if not mixed:
            chk.ok("K3-params", inst, runs[0], "for every configuration the persistent library parameters are set on all "
                   "compressing paths or on none (%d configurations, %d paths)" % (len(groups), sum(len(v) for v in groups.values())))
        else:
            chk.violation("K3-params", inst, runs[0], "under one and the same configuration some paths to the compression call set "
                          "the library's persistent parameters (strategy / level) and others do not: a block that takes the "
                          "second kind of path is compressed with what the previous block of that worker left in the stream, so "
                          "the bytes depend on which worker picked it up")
    return n


def rule_backlog_flow(chk, prog):
    """K2-backlog: how many blocks are in flight is a matter of the schedule and of -Q / -j (and, by default, of the number
    of CPUs).  It may decide when the submitting thread *waits*; it decides nothing about what is submitted.  No call
    that hands a block to the pool (or seals one for it) is control-dependent on a test of the processor's backlog
    counters -- directly or through a static predicate that reads them."""
    BL = {"backlog", "max_backlog"}
    PROC = "struct.sqfs_block_processor_t"

    def reads_backlog(g, v, depth=0):
        for x in [v] + list(backward_slice(v, phi_control=False, limit=200)):
            if x.is_inst and x.op == "load":
                q = strip_casts(x.ops[0])
                if q.is_inst and q.op == "getelementptr" and q.field() and q.field()[0].startswith(PROC) and q.field()[1] in BL:
                    return True
            if x.is_inst and x.op == "call" and x.callee and depth < 2:
                h = prog.fn(x.callee, g.unit)
                if h is not None and not h.decl and h.unit is g.unit and (h.ret or "") == "i1":
                    for r in h.build().rets():
                        if r.ops and reads_backlog(h, r.ops[0], depth + 1):
                            return True
                    # predicates that branch on the counters and answer constants
                    for b in h.blocks:
                        t = b.term
                        if t.op == "br" and len(t.x["succ"]) == 2 and reads_backlog(h, t.ops[0], depth + 1):
                            return True
        return False
    # functions that hand a block to the pool
    subs = set()
    for f in prog.functions():
        if not f.decl and any(slot_call(c) == ("struct.thread_pool_t", "submit") for c in f.build().calls()):
            subs.add(f)
    n = 0
    for f in prog.functions():
        if f.decl or not f.unit.src.startswith("lib/sqfs/src/block_processor/"):
            continue
        f.build()
        for c in f.calls():
            t = prog.fn(c.callee, f.unit) if c.callee else None
            if t not in subs and slot_call(c) != ("struct.thread_pool_t", "submit"):
                continue
            n += 1
            chk.analysed(f)
            inst = "%s:%s@%d" % (f.name, norm_callee(c.callee) or "submit", c.line)
            bad = None
            for cond, outcome, br in f.guards_at(c.bb):
                if reads_backlog(f, cond):
                    bad = br
            if bad is None:
                chk.ok("K2-backlog", inst, c, "whether this block is handed over does not depend on the number of blocks in flight")
            else:
                chk.violation("K2-backlog", inst, bad, "a block is handed to the pool (or not) depending on the backlog counters: where "
                              "blocks are cut then depends on -Q, -j, the number of CPUs and the speed of the workers")
    return n


def rule_c_env(chk, progs):
    seen = set()
    for tool, prog in progs.items():
        for f in prog.functions():
            for c in f.calls():
                nm = norm_callee(c.callee)
                if nm not in ENV_CALLS:
                    continue
                key = (f.unit.src, f.name, c.line, nm)
                if key in seen:
                    continue
                seen.add(key)
                chk.analysed(f)
                inst = "%s:%s" % (f.name, nm)
                if (f.name, nm) in ENV_ALLOWED:
                    chk.exception("K2-env", inst, c, ENV_ALLOWED[(f.name, nm)])
                elif nm in ("readdir", "readdir64", "scandir"):
                    # the set of names is input; only their order is host state.  Accepted iff C11's A3-source rule proves
                    # the order is erased (names copied out, sorted by a proven total order before anything observes them)
                    from .c11 import rule_source, rule_pipeline, _Sub
                    sub = _Sub(chk)
                    sub.broke = lambda *a: None
                    src, _n = rule_source(sub, prog)
                    st = src.get(f.unit.src)
                    mine = [x for x in (st[3] if st else []) if x[2] is c]
                    sub2 = _Sub(chk)
                    sub2.broke = lambda *a: None
                    rule_pipeline(sub2, prog, src)
                    if mine and mine[0][0]:
                        chk.ok("K2-env", inst, c, "directory enumeration whose order is erased before use (A3-source of C11 holds here)")
                    elif mine and not sub2.bad:
                        chk.ok("K2-env", inst, c, "unsorted enumeration mode that is never combined with an order-sensitive stage (A3-pipeline of C11 holds)")
                    else:
                        chk.violation("K2-env", inst, c, "the packer takes the host's directory enumeration order as it comes (C11 A3-source / A3-pipeline fail)")
                else:
                    ok_diag, why = (False, None)
                    if nm in ("getenv", "secure_getenv"):
                        from ..envflow import diagnostics_only
                        ok_diag, why = diagnostics_only(prog, f, c)
                    if ok_diag:
                        chk.ok("K2-env", inst, c, "the answer only decides whether diagnostics are printed to stderr: followed "
                               "through values, the locations it is stored in and the functions that return it; every branch "
                               "on it controls printing only and falls back into the common flow")
                    else:
                        chk.violation("K2-env", inst, c, "the packer queries the environment with %s: the image would depend on time, "
                                      "locale, process or host state%s" % (nm, (" (%s at %s:%d)" % (why[1], why[0].file, why[0].line)) if why else ""))
    # the default job count flows only into the worker count
    prog = progs["gensquashfs"]
    src = prog.need_fn("sqfs_writer_cfg_init")
    chk.analysed(src)
    stores = [i for i in src.insts() if i.op == "store" and any(x.is_inst and x.op == "call" and norm_callee(x.callee) == "os_get_num_jobs"
                                                                 for x in backward_slice(i.ops[0]))]
    flds = set()
    for s in stores:
        p = strip_casts(s.ops[1])
        if p.is_inst and p.op == "getelementptr" and p.field():
            flds.add(p.field())
    ok = flds and all(n_ == "num_jobs" for (_s, n_) in flds)
    # every load of cfg.num_jobs ends in blkdesc.num_workers / max_backlog default / a comparison / a message
    bad = None
    for f in prog.functions():
        for i in f.insts():
            if i.op == "load":
                p = strip_casts(i.ops[0])
                if p.is_inst and p.op == "getelementptr" and p.field() and p.field()[1] == "num_jobs" and \
                        p.field()[0].startswith("struct.sqfs_writer_cfg_t"):
                    for u in _forward_uses(f, i):
                        if u.op == "store":
                            q = strip_casts(u.ops[1])
                            tgt = q.field()[1] if (q.is_inst and q.op == "getelementptr" and q.field()) else None
                            if tgt not in ("num_workers", "num_jobs", "max_backlog"):
                                bad = u
    if ok and bad is None:
        chk.ok("K13-jobs", "os_get_num_jobs", stores[0], "the CPU count is stored only as the job count, which reaches only "
               "num_workers / the default backlog")
    else:
        chk.violation("K13-jobs", "os_get_num_jobs", bad or src, "the host's CPU count flows into something other than the worker "
                      "count: the image depends on the machine")


def _forward_uses(f, v):
    out, seen, stack = [], set(), [v]
    while stack:
        x = stack.pop()
        if id(x) in seen:
            continue
        seen.add(id(x))
        for u in f.uses.get(x, []):
            out.append(u)
            if u.op in ("zext", "sext", "trunc", "phi", "select", "mul", "add"):
                stack.append(u)
    return out


def rule_d_comparators(chk, prog):
    """no pointer-valued ordering: comparators handed to qsort / rbtree_init / hash_table_create do not compare
    pointers with < or >"""
    cmps = set()
    for f in prog.functions():
        for c in f.calls():
            nm = norm_callee(c.callee)
            if nm in ("qsort", "rbtree_init", "hash_table_create", "array_sort_range"):
                for a in c.ops:
                    for t in prog.fn_targets(a, f.unit):
                        if not isinstance(t, ExternFn):
                            cmps.add(t.build())
    for f in sorted(cmps, key=lambda f: f.qname):
        chk.analysed(f)
        bad = None
        for i in f.insts():
            if i.op == "icmp" and i.pred not in ("eq", "ne"):
                for o in i.ops:
                    o2 = strip_casts(o)
                    if getattr(o2, "ty", "").endswith("*") or (o2.is_inst and o2.op == "ptrtoint"):
                        bad = i
        if bad is None:
            chk.ok("K2-ptrorder", f.name, f, "orders by values, never by addresses")
        else:
            chk.violation("K2-ptrorder", f.name, bad, "a comparator orders elements by pointer value: the order depends on the "
                          "allocator (ASLR), not on the input")


def rule_e_siblings(chk):
    """both pool implementations fill all six interface slots"""
    for art, unit_src in (("libsquashfs.la", "lib/util/src/threadpool.c"), ("libutil.a", "lib/util/src/threadpool_serial.c")):
        try:
            prog = load_program(art)
        except AnalysisBroken:
            continue
        unit = prog.by_src.get(unit_src)
        if unit is None:
            chk.broke("%s not part of %s" % (unit_src, art))
            continue
        have = set()
        for f in unit.functions.values():
            if f.decl:
                continue
            for i in f.build().insts():
                if i.op == "store":
                    p = strip_casts(i.ops[1])
                    if p.is_inst and p.op == "getelementptr" and p.field() and p.field()[0].startswith("struct.thread_pool_t"):
                        v = strip_casts(i.ops[0])
                        if v.is_const and v.gname:
                            have.add(p.field()[1])
        missing = [s for s in POOL_SLOTS if s not in have]
        inst = unit_src.split("/")[-1]
        if not missing:
            chk.ok("K2-siblings", inst, list(unit.functions.values())[0], "all six thread_pool_t slots are implemented")
        else:
            chk.violation("K2-siblings", inst, list(unit.functions.values())[0], "thread pool implementation lacks slots %s" % missing)


def rule_in_order(chk, prog):
    """K11-inorder: what reaches the block writer reaches it in the order of the I/O sequence numbers, whatever order the
    pool hands blocks back in and however long the backlog is.  Every call of a function that passes a block on to the
    block writer (sqfs_block_writer_t.write_data_block) is made with the head of the ordered I/O queue, taken off under the
    test `head->io_seq_num == io_deq_seq_num`.  A block that goes there straight from the pool overtakes the blocks that
    wait in the queue (the open fragment block in flight), and where it lands depends on the backlog."""
    writers = set()
    for f in prog.functions():
        if f.decl or not f.unit.src.startswith("lib/sqfs/src/block_processor/"):
            continue
        f.build()
        if any(slot_call(c) == ("struct.sqfs_block_writer_t", "write_data_block") for c in f.calls()):
            writers.add(f)
    if not writers:
        chk.broke("no function of the block processor hands a block to the block writer")
        return 0
    n = 0
    for f in prog.functions():
        if f.decl or not f.unit.src.startswith("lib/sqfs/src/block_processor/") or f in writers:
            continue
        f.build()
        for c in f.calls():
            g = prog.fn(c.callee, f.unit) if c.callee else None
            if g not in writers:
                continue
            n += 1
            chk.analysed(f)
            inst = "%s:%s@%d" % (f.name, g.name, c.line)
            blk = [a for a in c.ops if (getattr(a, "ty", "") or "").startswith("%struct.sqfs_block_t")]
            def _is_queue_load(x):
                if not (x.is_inst and x.op == "load"):
                    return False
                q = strip_casts(x.ops[0])
                return q.is_inst and q.op == "getelementptr" and bool(q.field()) and q.field()[1] == "io_queue"
            from_queue = bool(blk) and all(any(_is_queue_load(x) for x in backward_slice(a, phi_control=False)) for a in blk)
            in_turn = False
            for cond, outcome, br in f.guards_at(c.bb):
                if cond.is_inst and cond.op == "icmp" and cond.pred in ("eq", "ne") and outcome == (cond.pred == "eq"):
                    names = {n_ for (_s, n_) in fields_in_slice(cond)}
                    if {"io_seq_num", "io_deq_seq_num"} <= names:
                        in_turn = True
            if from_queue and in_turn:
                chk.ok("K11-inorder", inst, c, "the block is the head of the I/O queue and it is its turn")
            else:
                chk.violation("K11-inorder", inst, c, "a block is handed to the block writer %s: it overtakes the blocks waiting in the "
                              "I/O queue, so where it (and the file it ends or starts) lands depends on what was still in flight, "
                              "that is on the backlog" % ("although it was not taken off the ordered I/O queue" if not from_queue
                                                          else "without the test that it is its turn (io_seq_num == io_deq_seq_num)"))
    return n


def run(chk):
    chk.explanation = (
        "The implementation's determinism argument (doc/parallelism.txt) as structural rules on LLVM IR: K3 everything "
        "reachable from the worker entry (through every compressor's do_block) performs no I/O, no dedup/fragment "
        "bookkeeping, touches no block-processor / writer / table state, writes no global and calls only memory "
        "functions and codec libraries; K2 sequence numbers, backlog and fragment state are written only on the "
        "submitting thread; K2 no environment query in the packers' closures except the documented ones, and the CPU "
        "count reaches only the worker count; comparators never order by address; both pool implementations fill all "
        "slots; plus the pool discipline (C09 rules) and the in-flight copy / fragment cache rules (C08) that the "
        "'independent of schedule and backlog' claim rests on. Byte equality with the serial build is not decided. K3 also demands stateless workers (stores only into the work item and codec-library structs); readdir is accepted iff C11's A3 rules hold for that call site. K2-backlog: no hand-over of a block to the pool is control-dependent on the backlog counters. K11-inorder: a block reaches the block writer only as the head of the ordered I/O queue and in its turn; K13-highwater: recording the size of one block never lowers the count of valid size words (the order of these records depends on the backlog).")
    chk.assumptions = ["done-list ordering of the pool is decided (as far as it is structural) by the C09 check"]
    prog = load_program("gensquashfs")
    reach = rule_a_confinement(chk, prog)
    rule_b_seq(chk, prog, reach)
    rule_seqstamp(chk, prog)
    rule_codec_params(chk, prog)
    chk.floor("K3-params", 1)
    rule_backlog_flow(chk, prog)
    chk.floor("K2-backlog", 3)
    rule_in_order(chk, prog)
    chk.floor("K11-inorder", 1)
    # the order in which the sizes of a file's blocks are recorded depends on the backlog: a later record must not undo an
    # earlier one (K13-highwater of C01)
    from .c01 import rule_highwater
    rule_highwater(chk, prog)
    chk.floor("K13-highwater", 1)
    chk.floor("K11-seqstamp", 2)
    rule_c_env(chk, {"gensquashfs": prog, "tar2sqfs": load_program("tar2sqfs")})
    rule_d_comparators(chk, prog)
    rule_e_siblings(chk)
    from .c08 import rule_e_inflight, rule_f_fragcache
    rule_e_inflight(chk, prog)
    rule_f_fragcache(chk, prog)
    # every pool worker has a compressor copy and scratch buffer of its own (L8 of C09): two workers that share one
    # produce bytes that depend on which of them ran when
    # ... and the whole pool discipline (C09): items come back in the order of their tickets only if the ticket is what
    # the hand-back compares; a lost wake-up or an unlocked access makes the result depend on the schedule
    from . import c09
    exp, ass = chk.explanation, list(chk.assumptions)
    c09.run(chk)
    chk.explanation = exp + " The pool discipline rules L1-L11 of C09 (lock state, condition variables, ticket discipline, tail appends, per-worker contexts) are run here as well."
    chk.assumptions = ass
    chk.floor("L8", 1)
    chk.floor("K3-worker", 8)
    chk.floor("K2-seq", 10)
    chk.floor("K2-env", 2)
    chk.floor("K13-jobs", 1)
    chk.floor("K2-ptrorder", 4)
    chk.floor("K2-siblings", 1)
