"""C13 -- fail-stop: error discipline (K5) and unconditional cleanup (K1/K13)."""
from ..ir import load_program, strip_casts, norm_callee, ExternFn
from ..build import AnalysisBroken
from ..util import resolve_ptr, backward_slice, const_int
from ..effects import Effects, slot_call, success_points, reachable_after
from ..errflow import ErrModel, ALLOC_EXT, ALLOC_PROJECT, ret_values, ret_sources, consistent_reach, failure_edges

TOOLS = ("gensquashfs", "tar2sqfs", "sqfs2tar", "rdsquashfs")

# E1 exceptions: (caller, callee) -> reason.  Everything else discarded is a violation.
E1_EXCEPTIONS = {
    ("stream_destroy", "sqfs_block_processor_end_file"):
        "destructor of an unfinished block-processor stream: runs only when the caller abandons the file (error path); "
        "there is no one left to report to",
}
# E3: allocation sites whose result is deliberately handed on unchecked: (function, allocator) -> reason
E3_EXCEPTIONS = {}


def const_arg_accepts(prog, call):
    """array_init(array, size, 0): capacity 0 never reaches malloc (the allocation is guarded by capacity > 0)"""
    name = norm_callee(call.callee)
    if name != "array_init" or len(call.ops) < 3:
        return None
    if const_int(call.ops[2]) != 0:
        return None
    g = prog.fn(name, call.fn.unit)
    if g is None or g.decl:
        return None
    g.build()
    cap = g.params[2]
    allocs = [c for c in g.calls() if norm_callee(c.callee) in ALLOC_EXT]
    for a in allocs:
        ok = False
        for cond, outcome, br in g.guards_at(a.bb):
            if cond.is_inst and cond.op == "icmp" and cap in cond.ops:
                z = [o for o in cond.ops if o.is_const and o.is_int and o.sval == 0]
                if z and ((cond.pred in ("ugt", "ne", "sgt") and outcome is True) or
                          (cond.pred in ("eq", "ule") and outcome is False)):
                    ok = True
        if not ok:
            return None
    # with capacity 0 the remaining returns are the constant 0
    return "capacity argument is the constant 0 and array_init allocates only under capacity > 0"


def rule_e1(chk, prog, em, tool, seen):
    n = 0
    for f in prog.functions():
        for c in f.calls():
            if not em.call_is_err(c):
                continue
            key = (f.unit.src, f.name, c.line, c.col)
            if key in seen:
                continue
            seen.add(key)
            n += 1
            chk.analysed(f)
            callee = norm_callee(c.callee) or ("%s.%s" % slot_call(c) if slot_call(c) else "indirect")
            inst = "%s->%s" % (f.name, callee)
            if f.uses.get(c):
                chk.ok("E1", inst, c, "result is used", nontrivial=False)
                continue
            why = const_arg_accepts(prog, c)
            if why:
                chk.ok("E1", inst, c, "discarded, but cannot fail here: " + why)
            elif (f.name, callee) in E1_EXCEPTIONS:
                chk.exception("E1", inst, c, E1_EXCEPTIONS[(f.name, callee)])
            else:
                chk.violation("E1", inst, c, "the result of %s (which can report an allocation or I/O failure) is "
                              "discarded: the run continues and may exit 0 with a damaged image" % callee)
    return n


def rule_e4(chk, prog, em, tool, seen):
    """E4: an ERR result obtained inside a loop is tested before the loop can come round and replace it.
    In SSA: the result r is only merged into phis (never branched on inside the loop); one of those phis is loop-carried; the
    call can execute again; and the value that leaves the loop is the carried one.  Then a failure in iteration i is
    overwritten by a success in iteration j > i."""
    n = 0
    for f in prog.functions():
        loops = f.loops
        if not loops:
            continue
        for c in f.calls():
            if not em.call_is_err(c):
                continue
            L = [(h, body) for (h, body) in loops if c.bb in body]
            if not L:
                continue
            key = (f.unit.src, f.name, c.line, c.col)
            if key in seen:
                continue
            seen.add(key)
            h, body = min(L, key=lambda t: len(t[1]))
            # carriers: r and every phi/cast inside the loop it is merged into
            carriers, work = {id(c): c}, [c]
            while work:
                v = work.pop()
                for u in f.uses.get(v, []):
                    if u.op in ("phi", "sext", "zext", "trunc", "select") and u.bb in body and id(u) not in carriers:
                        carriers[id(u)] = u
                        work.append(u)
            tested = False
            for v in carriers.values():
                for u in f.uses.get(v, []):
                    if u.op in ("icmp", "switch", "br") and u.bb in body:
                        tested = True
                    if u.op in ("call", "store", "ret") and u.bb in body:
                        tested = True        # handed on / stored / returned inside the loop: not silently replaced
            n += 1
            callee = norm_callee(c.callee) or ("%s.%s" % slot_call(c) if slot_call(c) else "indirect")
            inst = "%s->%s" % (f.name, callee)
            carried = [v for v in carriers.values() if v.op == "phi" and v.bb is h]
            if tested or not carried:
                chk.ok("E4", inst, c, "the result is examined (or leaves the function) inside the loop body before the next iteration")
                continue
            # can the call run again, and can a carrier be replaced by a different value on the way?
            chk.analysed(f)
            chk.violation("E4", inst, c, "the result of %s is only carried round the loop in a variable that the next iteration "
                          "overwrites: a failure followed by a success in a later iteration is lost and the function reports success" % callee)
    return n


def rule_e4_replaced(chk, prog, em, tool, seen):
    """E4-replaced: outside loops too, a status is looked at before something else is put in its place.  The result r of a
    call that can fail meets, in a phi, the result r2 of another call that was made *behind* it on a way on which r was not
    examined (`ret = pack(); if (cwd >= 0) ret = go_back(cwd); return ret;`): on that way a failure of the first call is
    replaced by the success of the second.  A constant error code in place of r2 is fine (the way ends in failure anyway)."""
    n = 0
    for f in prog.functions():
        for c in f.calls():
            if not em.call_is_err(c):
                continue
            # r itself (through casts) must reach a phi directly
            carr, work = [c], [c]
            while work:
                v = work.pop()
                for u in f.uses.get(v, []):
                    if u.op in ("sext", "zext", "trunc") and all(u is not x for x in carr):
                        carr.append(u)
                        work.append(u)
            phis = [u for v in carr for u in f.uses.get(v, []) if u.op == "phi"]
            if not phis:
                continue
            tests = [u for v in carr for u in f.uses.get(v, []) if u.op in ("icmp", "switch")]
            for p in phis:
                for val, pb in zip(p.ops, p.x["inc"]):
                    x = val
                    while x.is_inst and x.op in ("sext", "zext", "trunc"):
                        x = x.ops[0]
                    if any(x is y for y in carr) or not (x.is_inst and x.op == "call") or x is c:
                        continue
                    if not em.call_is_err(x):
                        continue
                    # the other call is made behind c ...
                    if not (f.inst_dominates(c, x)):
                        continue
                    # ... on a way on which r was not examined
                    if any(f.inst_dominates(t, x) for t in tests):
                        continue
                    key = (f.unit.src, f.name, c.line, c.col, x.line)
                    if key in seen:
                        continue
                    seen.add(key)
                    n += 1
                    chk.analysed(f)
                    inst = "%s:%s/%s" % (f.name, norm_callee(c.callee) or "indirect", norm_callee(x.callee) or "indirect")
                    chk.violation("E4-replaced", inst, x, "the status of %s (line %d) is replaced by the status of %s without having been "
                                  "looked at: a failure of the first call followed by a success of the second is reported as "
                                  "success" % (norm_callee(c.callee) or "the call", c.line, norm_callee(x.callee) or "this call"))
    return n


def _known_nonpositive(f, v, b):
    """on the way to block b (where v is selected as the return value) a test  v > 0  has failed"""
    facts = list(f.guards_at(b))
    t = b.term
    if t.op == "br" and len(t.x["succ"]) == 2:
        for k, s_ in enumerate(t.x["succ"]):
            if any(i.op in ("phi", "ret") for i in s_.insts):
                facts.append((t.ops[0], k == 0, t))
    for (c, outcome, br) in facts:
        if c.is_inst and c.op == "icmp" and strip_casts(c.ops[0]) is v and c.ops[1].is_const and c.ops[1].is_int and c.ops[1].sval == 0:
            if (c.pred == "sgt" and outcome is False) or (c.pred == "sle" and outcome is True) or \
                    (c.pred == "eq" and outcome is True) or (c.pred == "slt" and outcome is True):
                return True
    return False


def tristate_functions(prog, em):
    """ERR functions whose non-zero results have two meanings: negative = error, positive = a regular answer
    (end of input, 'differs', ...).  Fix-point: returning the result of such a function makes the caller one."""
    T = set()
    cand = [f for f in prog.functions() if not f.decl and f.ret in ("i32", "i64") and f in em.err]
    changed = True
    while changed:
        changed = False
        for f in cand:
            if f in T:
                continue
            f.build()
            neg = pos = False
            for v, b in ret_sources(f):
                w = strip_casts(v)
                if w.is_const and w.is_int:
                    if w.sval < 0:
                        neg = True
                    elif w.sval > 0:
                        pos = True
                elif w.is_inst and w.op == "call":
                    ts, _ok = prog.call_targets(w)
                    ts = [t for t in ts if not isinstance(t, ExternFn)]
                    if ts and all(t in T for t in ts):
                        neg = True
                        if not _known_nonpositive(f, w, b):
                            pos = True
                    elif em.call_is_err(w):
                        neg = True
            if neg and pos:
                T.add(f)
                changed = True
    return T


def rule_e5(chk, prog, em, tool, seen):
    """E5: the result of a tri-state function is not collapsed to equal / not-equal zero: somewhere the negative range
    is told apart (signed comparison), or the value is handed on unchanged (returned, stored, passed)"""
    T = tristate_functions(prog, em)
    n = 0
    for f in prog.functions():
        for c in f.calls():
            ts, _ok = prog.call_targets(c)
            ts = [t for t in ts if not isinstance(t, ExternFn)]
            if not ts or not all(t in T for t in ts):
                continue
            key = (f.unit.src, f.name, c.line, c.col)
            if key in seen:
                continue
            seen.add(key)
            n += 1
            chk.analysed(f)
            carriers, work = {id(c): c}, [c]
            while work:
                v = work.pop()
                for u in f.uses.get(v, []):
                    if u.op in ("phi", "sext", "zext", "trunc", "select") and id(u) not in carriers:
                        carriers[id(u)] = u
                        work.append(u)
            told = False
            eqonly = None
            for v in carriers.values():
                for u in f.uses.get(v, []):
                    if u.op == "icmp":
                        if u.pred in ("slt", "sgt", "sle", "sge"):
                            told = True
                        else:
                            eqonly = u
                    elif u.op in ("ret", "store", "call", "switch"):
                        told = True
            callee = norm_callee(c.callee) or ("%s.%s" % slot_call(c) if slot_call(c) else "indirect")
            inst = "%s->%s" % (f.name, callee)
            if told or eqonly is None:
                chk.ok("E5", inst, c, "negative (error) and positive results are told apart or the value is handed on", nontrivial=told)
            else:
                chk.violation("E5", inst, eqonly, "%s answers <0 for an error and >0 for a regular outcome, but its result is only "
                              "compared for (in)equality with zero: an I/O error is taken for the regular non-zero answer" % callee)
    return n


def rule_e2(chk, prog, em, tool, seen):
    """error turned into success: on the edge where an error result is non-zero the function returns constant 0
    through unconditional branches only, without any call in between (nothing stored, nothing reported)"""
    n = 0
    for f in prog.functions():
        status = None
        for c in f.calls():
            if not em.call_is_err(c):
                continue
            key = (f.unit.src, f.name, c.line, c.col)
            if key in seen:
                continue
            if status is None:
                # 0 means success only in a function that can also say "failed" (a negative constant, a handed-on status);
                # a function that answers an identifier or a count, with 0 for "none", has no status to lose here (E8 looks
                # at what its callers do with that answer)
                status = _has_status_channel(f, em) or f.ret == "void"
            if not status:
                continue
            for u in f.uses.get(c, []):
                if u.op != "icmp" or u.pred not in ("eq", "ne", "slt") or not (u.ops[1].is_const and u.ops[1].is_int and u.ops[1].sval == 0):
                    continue
                for br in f.uses.get(u, []):
                    if br.op != "br" or len(br.x["succ"]) != 2:
                        continue
                    err_succ = br.x["succ"][1] if u.pred == "eq" else br.x["succ"][0]
                    seen.add(key)
                    n += 1
                    inst = "%s->%s" % (f.name, norm_callee(c.callee) or "indirect")
                    # follow the straight line
                    b, prev = err_succ, br.bb
                    steps = 0
                    verdict = None
                    while steps < 6:
                        steps += 1
                        body = [i for i in b.insts if i.op not in ("br", "ret", "phi")]
                        if any(i.op in ("call", "store") for i in body):
                            break
                        t = b.term
                        if t.op == "ret":
                            v = t.ops[0] if t.ops else None
                            if v is not None and v.is_inst and v.op == "phi" and v.bb is b:
                                for val, pred in zip(v.ops, v.x["inc"]):
                                    if pred is prev:
                                        v = val
                            if v is not None and v.is_const and v.is_int and v.sval == 0 and f.ret != "void":
                                verdict = t
                            break
                        if t.op == "br" and len(t.x["succ"]) == 1:
                            prev, b = b, t.x["succ"][0]
                            continue
                        break
                    if verdict is not None:
                        chk.violation("E2", inst, c, "on the edge where %s reported a failure the function returns 0 "
                                      "(success) at %s:%d without storing or reporting the error" % (
                                          norm_callee(c.callee) or "the callee", verdict.file, verdict.line))
                    else:
                        chk.ok("E2", inst, c, "failure edge does not fall straight into 'return 0'", nontrivial=False)
    return n


def _errish(em, y, res, seen):
    """y is built from error results only: results of calls that can fail, non-positive constants, phis / casts of those"""
    while y.is_inst and y.op in ("sext", "zext", "trunc"):
        y = y.ops[0]
    if id(y) in seen:
        return True
    seen.add(id(y))
    if y.is_const:
        return bool(y.is_int and y.sval <= 0)
    if id(y) in res:
        return True
    if y.is_inst and y.op == "call":
        return em.call_is_err(y)
    if y.is_inst and y.op in ("phi", "select"):
        return all(_errish(em, o, res, seen) for o in (y.ops if y.op == "phi" else y.ops[1:]))
    return False


def _has_status_channel(f, em):
    """the function can tell its caller that it failed: it returns a negative constant somewhere, or hands on the
    result of a call that can fail"""
    for v in ret_values(f):
        w = v
        while w.is_inst and w.op in ("sext", "zext", "trunc"):
            w = w.ops[0]
        if w.is_const:
            if w.is_int and w.sval < 0:
                return True
        elif w.is_inst and w.op == "call" and em.call_is_err(w):
            return True
        elif w.is_inst and w.op == "load":
            q = w.ops[0]
            while q.is_inst and q.op in ("getelementptr", "bitcast"):
                q = q.ops[0]
            if q.is_const and q.gname:
                continue      # an entry of a global table (identifiers), not a status
            return True       # a stored status (it->state): cannot be excluded
    return False


def rule_e6(chk, prog, em, tool, seen):
    """E6: on the edge where a result was found to be an error code (negative, or non-zero for 0/-errno functions) the
    function does not return a value that may be a regular answer -- a byte count, a 'partial success' -- without having
    stored or reported anything in between"""
    n = 0
    for f in prog.functions():
        if f.ret not in ("i32", "i64") or f.name == "main":
            continue
        if not _has_status_channel(f, em):
            continue          # returns an identifier / a count with no way to say 'failed': E8 is the rule for those
        for c in f.calls():
            if not em.call_is_err(c):
                continue
            key = (f.unit.src, f.name, c.line, c.col)
            if key in seen:
                continue
            res = {id(c)}
            vals = [c] + [y for y in f.uses.get(c, []) if y.op in ("sext", "zext", "trunc")]
            for y in vals:
                res.add(id(y))
            edges = []
            for v in vals:
                for u in f.uses.get(v, []):
                    if u.op != "icmp" or not (u.ops[1].is_const and u.ops[1].is_int and u.ops[1].sval == 0):
                        continue
                    for br in f.uses.get(u, []):
                        if br.op != "br" or len(br.x["succ"]) != 2:
                            continue
                        if u.pred == "slt":
                            edges.append((br.bb, br.x["succ"][0], True))
                        elif u.pred == "sge":
                            edges.append((br.bb, br.x["succ"][1], True))
                        elif u.pred == "ne":
                            edges.append((br.bb, br.x["succ"][0], False))
                        elif u.pred == "eq":
                            edges.append((br.bb, br.x["succ"][1], False))
            if not edges:
                continue
            seen.add(key)
            n += 1
            inst = "%s->%s" % (f.name, norm_callee(c.callee) or ("%s.%s" % slot_call(c) if slot_call(c) else "indirect"))
            bad = None
            for (frm, start, strict) in edges:
                # all return blocks reachable without a call or a store (nothing recorded on the way), depth-bounded
                stack = [(start, frm, 0)]
                visited = set()
                while stack and bad is None:
                    b, prev, d = stack.pop()
                    if (id(b), id(prev)) in visited or d > 6:
                        continue
                    visited.add((id(b), id(prev)))
                    if any(i.op in ("call", "store") for i in b.insts):
                        continue
                    t = b.term
                    if t.op == "ret":
                        v = t.ops[0] if t.ops else None
                        if v is not None and v.is_inst and v.op == "phi" and v.bb is b:
                            for val, pred in zip(v.ops, v.x["inc"]):
                                if pred is prev:
                                    v = val
                        leaves, work = [], [v] if v is not None else []
                        while work:
                            y = work.pop()
                            while y.is_inst and y.op in ("sext", "zext", "trunc"):
                                y = y.ops[0]
                            if y.is_inst and y.op == "select":
                                work += [y.ops[1], y.ops[2]]
                            else:
                                leaves.append(y)
                        for y in leaves:
                            if y.is_const:
                                if strict and y.is_int and y.sval > 0:
                                    bad = (t, "the positive constant %d" % y.sval)
                            elif id(y) in res or (y.is_inst and y.op == "call" and em.call_is_err(y)):
                                pass
                            elif _errish(em, y, res, set()):
                                pass
                            else:
                                bad = (t, "'%s', which is not the error code" % ((getattr(y, "name", None) or y.op) if y.is_inst else "a value"))
                        continue
                    for s_ in b.succs:
                        stack.append((s_, b, d + 1))
            if bad is not None:
                chk.violation("E6", inst, c, "on the edge where %s reported an error the function can return %s (line %d) without "
                              "storing or reporting the error: the failure is swallowed or deferred to a call that may never come" % (
                                  norm_callee(c.callee) or "the callee", bad[1], bad[0].line))
            else:
                chk.ok("E6", inst, c, "an error result is not turned into a regular return value", nontrivial=False)
    return n


def alloc_sites(prog, f):
    for c in f.calls():
        n = norm_callee(c.callee)
        if n in ALLOC_EXT or n in ALLOC_PROJECT:
            yield c


# E7: allocation sites whose failure is tolerated by design: (function, allocator) -> reason
E7_EXCEPTIONS = {
    ("istream_get_line", "realloc"): "shrink-to-fit of the finished line: when it fails the larger buffer is kept and "
                                     "handed out, the result is the same",
}


def _e7_null_edges(prog, f, c):
    aliases, _slots = alias_set(prog, f, c)
    out = []
    for a in aliases:
        if a.op == "phi":
            continue          # a phi mixes this allocation with earlier ones (list tails): not a test of this result
        for u in f.uses.get(a, []):
            if u.op == "icmp" and u.pred in ("eq", "ne"):
                o = u.ops[1] if u.ops[0] is a else u.ops[0]
                if not (o.is_const and o.is_null):
                    continue
                for br in f.uses.get(u, []):
                    if br.op == "br" and len(br.x["succ"]) == 2:
                        out.append((br, br.x["succ"][0] if u.pred == "eq" else br.x["succ"][1], aliases))
    return out


def _e7_zero_known(f, bb):
    z = set()
    for cond, outcome, br in f.guards_at(bb):
        if cond.is_inst and cond.op == "icmp" and cond.ops[1].is_const and cond.ops[1].is_int and cond.ops[1].sval == 0:
            if (cond.pred == "ne" and outcome is False) or (cond.pred == "eq" and outcome is True):
                z.add(id(strip_casts(cond.ops[0])))
    return z


def _e7_walk(prog, f, br, succ, aliases, zero, neg=(), cap=3000, specific_handled=False):
    """values returned along the acyclic paths that start with the edge br.bb -> succ.  Phis are resolved by the edge
    taken, loads by the last store on the path; branches that test the failed pointer, a value known to be zero, or
    the failed call's negative result are followed on the consistent side only."""
    res = []
    al = set(id(a) for a in aliases)
    count = [0]
    nz = None
    if isinstance(neg, tuple) and len(neg) == 2 and neg[0] == "nz":
        nz, neg = neg[1], ()

    def resolve(v, path):
        for _ in range(12):
            while v.is_inst and v.op in ("sext", "zext", "trunc", "bitcast"):
                v = v.ops[0]
            if v.is_inst and v.op == "phi" and v.bb in path:
                k = len(path) - 1 - path[::-1].index(v.bb)
                if k == 0:
                    return v
                pred = path[k - 1]
                nv = None
                for val, p in zip(v.ops, v.x["inc"]):
                    if p is pred:
                        nv = val
                if nv is None:
                    return v
                v = nv
                continue
            if v.is_inst and v.op == "load" and v.bb in path:
                k = len(path) - 1 - path[::-1].index(v.bb)
                found = None
                for bi in range(k, -1, -1):
                    b = path[bi]
                    insts = b.insts[:v.pos] if (b is v.bb and bi == k) else b.insts
                    for i in reversed(insts):
                        if i.op == "store" and same_loc(prog, f, i.ops[1], v.ops[0]):
                            found = i
                            break
                    if found:
                        break
                if found is None:
                    return v
                v = found.ops[0]
                path = path[:bi + 1]
                continue
            return v
        return v

    def dfs(b, path):
        if count[0] > cap:
            return
        count[0] += 1
        path = path + [b]
        t = b.term
        if t.op == "ret":
            if t.ops:
                res.append((resolve(t.ops[0], path), t, path))
            return
        nxt = list(b.succs)
        if t.op == "br" and len(t.x["succ"]) == 2:
            c = t.ops[0]
            if c.is_inst and c.op == "icmp" and c.ops[1].is_const:
                x = resolve(c.ops[0], path) if c.ops[1].is_null else None
                if x is not None and c.pred in ("eq", "ne") and (id(x) in al or id(c.ops[0]) in al):
                    nxt = [t.x["succ"][0] if c.pred == "eq" else t.x["succ"][1]]
                elif specific_handled and c.ops[1].is_int and c.ops[1].sval != 0 and c.pred in ("eq", "ne"):
                    # (E7 only) the failed result is compared with one particular error code: the side that singles that code out
                    # is a deliberate decision about that error (e.g. "unsupported prefix: warn and skip"), not a lost one
                    xr = resolve(c.ops[0], path)
                    if (nz and id(xr) == nz) or id(xr) in neg:
                        nxt = [t.x["succ"][1] if c.pred == "eq" else t.x["succ"][0]]
                elif c.ops[1].is_int and c.ops[1].sval == 0:
                    xr = resolve(c.ops[0], path)
                    if nz and id(xr) == nz:
                        if c.pred == "eq":
                            nxt = [t.x["succ"][1]]
                        elif c.pred == "ne":
                            nxt = [t.x["succ"][0]]
                    elif id(xr) in neg:
                        if c.pred == "eq":
                            nxt = [t.x["succ"][1]]
                        elif c.pred == "ne":
                            nxt = [t.x["succ"][0]]
                        elif c.pred in ("slt", "sle"):
                            nxt = [t.x["succ"][0]]
                        elif c.pred in ("sgt", "sge"):
                            nxt = [t.x["succ"][1]]
                    elif xr.is_const and xr.is_int and xr.sval != 0:
                        truth = {"eq": False, "ne": True, "slt": xr.sval < 0, "sle": xr.sval <= 0, "sgt": xr.sval > 0,
                                 "sge": xr.sval >= 0}.get(c.pred)
                        if truth is not None:
                            nxt = [t.x["succ"][0] if truth else t.x["succ"][1]]
                    elif id(xr) in zero or (xr.is_const and xr.is_int and xr.sval == 0):
                        if c.pred == "eq":
                            nxt = [t.x["succ"][0]]
                        elif c.pred == "ne":
                            nxt = [t.x["succ"][1]]
                        elif c.pred in ("slt", "sgt"):
                            nxt = [t.x["succ"][1]]
        for s_ in nxt:
            if s_ in path:
                continue
            dfs(s_, path)

    if succ is None:
        dfs(br.bb, [])          # start at the block itself: its own branch is followed consistently, too
    else:
        dfs(succ, [br.bb])
    return res


def rule_e7(chk, prog, em, tool, seen):
    """a failure does not come back as success: in a function of the 0 / negative-error convention, on the edge where
    an allocation returned NULL (or a call that can fail returned a negative value) no path reaches a return whose
    value is the constant 0 or a variable that the guards in front of the edge pin to 0 (the classic
    'goto fail' with ret still 0)."""
    n = 0
    T = tristate_functions(prog, em)
    for f in prog.functions():
        if f not in em.err:
            continue
        sites = []
        for c in alloc_sites(prog, f):
            for (br, succ, aliases) in _e7_null_edges(prog, f, c):
                sites.append((c, norm_callee(c.callee), br, succ, aliases, ()))
        # constructors of the project: functions that hand back an object, or NULL when something they need fails
        for c in f.calls():
            if not c.callee or not (c.ty or "").endswith("*"):
                continue
            t = prog.fn(c.callee, f.unit)
            if t is None or t.decl or t not in _null_on_failure(prog, em):
                continue
            for (br, succ, aliases) in _e7_null_edges(prog, f, c):
                sites.append((c, norm_callee(c.callee), br, succ, aliases, ()))
        for c in f.calls():
            if not em.call_is_err(c):
                continue
            for u in f.uses.get(c, []):
                if u.op != "icmp" or not (u.ops[1].is_const and u.ops[1].is_int and u.ops[1].sval == 0):
                    continue
                for br in f.uses.get(u, []):
                    if br.op != "br" or len(br.x["succ"]) != 2:
                        continue
                    succ = {"slt": br.x["succ"][0], "sge": br.x["succ"][1]}.get(u.pred)
                    if succ is not None:
                        sites.append((c, norm_callee(c.callee) or "indirect", br, succ, [], {id(c)}))
                        continue
                    # == 0 / != 0: a failure edge only if the callee has no regular positive answers
                    ts, _ok = prog.call_targets(c)
                    ts = [t for t in ts if not isinstance(t, ExternFn)]
                    if not ts or any(t in T for t in ts) or slot_call(c):
                        continue
                    succ = {"ne": br.x["succ"][0], "eq": br.x["succ"][1]}.get(u.pred)
                    if succ is not None:
                        sites.append((c, norm_callee(c.callee) or "indirect", br, succ, [], ("nz", id(c))))
        for (c, what, br, succ, aliases, neg) in sites:
            key = (f.unit.src, f.name, c.line, c.col, br.line, br.col)
            if key in seen:
                continue
            seen.add(key)
            n += 1
            chk.analysed(f)
            inst = "%s:%s@%d" % (f.name, what, c.line)
            zero = _e7_zero_known(f, br.bb) - {id(c)}
            bad = None
            for (v, r, _p) in _e7_walk(prog, f, br, succ, aliases, zero, neg, specific_handled=True):
                if (v.is_const and v.is_int and v.sval == 0) or id(v) in zero:
                    if aliases and _recovered_by_retry(prog, f, c, _p):
                        continue
                    bad = (v, r)
                    break
            if bad is None:
                chk.ok("E7", inst, c, "no path from the failure edge returns 0", nontrivial=True)
            elif (f.name, what) in E7_EXCEPTIONS:
                chk.exception("E7", inst, c, E7_EXCEPTIONS[(f.name, what)])
            else:
                v, r = bad
                chk.violation("E7", inst, br, "after %s() failed (line %d) a path reaches the return at %s:%d with %s: the "
                              "failure is reported as success and the caller goes on with what was not produced" % (
                                  what, c.line, r.file, r.line,
                                  "the constant 0" if v.is_const else "a result that the guards in front of the failure "
                                  "pin to 0 (the status variable was not set)"))
    return n


_NOF = {}


def _null_on_failure(prog, em):
    """defined functions with a pointer result that answer NULL somewhere and can be hit by a fault (an allocation, I/O)"""
    got = _NOF.get(id(prog))
    if got is None:
        got = set()
        for g in prog.functions():
            if g.decl or not (g.ret or "").endswith("*") or g not in em.fault_reach:
                continue
            nulls = [b for (v, b) in ret_sources(g.build()) if strip_casts(v).is_const and strip_casts(v).is_null]
            if not nulls:
                continue
            # every NULL it answers is behind the failure of something it called (or of an argument check): a function that
            # also says NULL for "not there" (a lookup) is not a constructor, its NULL is an answer
            def behind_failure(b):
                for cond, outcome, br in g.guards_at(b):
                    for x in [cond] + list(backward_slice(cond, phi_control=False, limit=40)):
                        if x.is_inst and x.op == "call" and not (norm_callee(x.callee) or "").startswith("llvm."):
                            return True
                return False
            if all(behind_failure(b) for b in nulls):
                got.add(g)
        _NOF[id(prog)] = got
    return got


def _recovered_by_retry(prog, f, failed, path):
    """after the allocation failed the path makes another allocation of the same kind and goes on only because *that* one
    succeeded (its result is tested against NULL on the path and the non-NULL side is taken): the first failure was
    survived, not lost -- whether what is recorded about the buffer then fits what was got is K6-capagree's business"""
    nm = norm_callee(failed.callee)
    for k, b in enumerate(path):
        for i in b.insts:
            if i.op == "call" and i is not failed and norm_callee(i.callee) == nm:
                # a later block of the path tests something that resolves to i against NULL and takes the non-NULL edge
                for j in range(k, len(path) - 1):
                    t = path[j].term
                    if t.op != "br" or len(t.x["succ"]) != 2:
                        continue
                    cnd = t.ops[0]
                    if not (cnd.is_inst and cnd.op == "icmp" and cnd.pred in ("eq", "ne") and cnd.ops[1].is_const and cnd.ops[1].is_null):
                        continue
                    x = strip_casts(cnd.ops[0])
                    hops = 0
                    while x.is_inst and x.op == "phi" and x.bb in path and hops < 4:
                        kk = path.index(x.bb)
                        nv = [val for val, p_ in zip(x.ops, x.x["inc"]) if kk > 0 and p_ is path[kk - 1]]
                        if not nv:
                            break
                        x = strip_casts(nv[0])
                        hops += 1
                    if x is i:
                        nonnull = t.x["succ"][1] if cnd.pred == "eq" else t.x["succ"][0]
                        if path[j + 1] is nonnull:
                            return True
    return False


E9_EXCEPTIONS = {}
REPORTING = {"perror", "sqfs_perror", "fprintf", "fputs", "fputc", "fwrite", "vfprintf", "printf", "puts", "abort", "exit",
             "_exit", "__assert_fail"}
E8_EXCEPTIONS = {
    ("compressor_print_available", "sqfs_compressor_create"):
        "the --help listing of usable compressors: it prints, it does not pack; a compressor that cannot be created "
        "right now is left out of the list",
}


def rule_e8(chk, prog, em, tool, seen):
    """a failure is not taken for 'try the next one': where a call that can fail sits in a loop and its result is only
    ever compared with zero, the failure edge does not lead round the loop to the next attempt without the error
    leaving a trace (reported, stored, returned, or compared with a specific error code that tells 'not available'
    apart from a fault)."""
    n = 0
    T = tristate_functions(prog, em)
    for f in prog.functions():
        if not f.loops:
            continue
        for c in f.calls():
            if not em.call_is_err(c):
                continue
            ts, _ok = prog.call_targets(c)
            ts = [t for t in ts if not isinstance(t, ExternFn)]
            if not ts or any(t in T for t in ts) or slot_call(c):
                continue
            inloop = [(h, body) for (h, body) in f.loops if c.bb in body]
            if not inloop:
                continue
            key = (f.unit.src, f.name, c.line, c.col)
            if key in seen:
                continue
            seen.add(key)
            carriers, work = {id(c): c}, [c]
            while work:
                v = work.pop()
                for u in f.uses.get(v, []):
                    if u.op in ("phi", "sext", "zext", "trunc", "select") and id(u) not in carriers:
                        carriers[id(u)] = u
                        work.append(u)
            discriminated = False
            for v in carriers.values():
                for u in f.uses.get(v, []):
                    if u.op == "icmp":
                        o = u.ops[1] if u.ops[0] is v else u.ops[0]
                        if not (o.is_const and o.is_int and o.sval == 0):
                            discriminated = True
                        elif u.pred in ("slt", "sgt", "sle", "sge"):
                            discriminated = True
                    elif u.op in ("ret", "store", "call", "switch"):
                        discriminated = True
            n += 1
            chk.analysed(f)
            callee = norm_callee(c.callee) or "indirect"
            inst = "%s->%s" % (f.name, callee)
            if discriminated:
                chk.ok("E8", inst, c, "the result is told apart, handed on or stored", nontrivial=False)
                continue
            bad = None
            for (succ, _fact) in failure_edges(f, c):
                stack, vis = [succ], set()
                while stack and bad is None:
                    b = stack.pop()
                    if b in vis:
                        continue
                    vis.add(b)
                    if b is c.bb:
                        bad = succ
                        break
                    if any(i.op == "ret" for i in b.insts):
                        continue
                    if any(i.op == "call" and norm_callee(i.callee) in REPORTING for i in b.insts):
                        continue
                    if any(i.op == "store" and i.ops[0].is_const and i.ops[0].is_int and i.ops[0].sval != 0 for i in b.insts):
                        continue
                    stack.extend(b.succs)
            if bad is None:
                chk.ok("E8", inst, c, "the failure edge does not lead back to the call without a report or a stored status")
            elif (f.name, callee) in E8_EXCEPTIONS:
                chk.exception("E8", inst, c, E8_EXCEPTIONS[(f.name, callee)])
            else:
                chk.violation("E8", inst, c, "when %s() fails the loop simply goes on to the next attempt: the result is only "
                              "compared with 0, so a fault (out of memory, I/O error) is taken for 'not available' and "
                              "the run succeeds with a different outcome than a fault-free run" % callee)
    return n


def rule_e3(chk, prog, tool, seen):
    """allocation results are compared against NULL before they are dereferenced"""
    n = 0
    for f in prog.functions():
        for c in alloc_sites(prog, f):
            key = (f.unit.src, f.name, c.line, c.col)
            if key in seen:
                continue
            seen.add(key)
            n += 1
            chk.analysed(f)
            alloc = norm_callee(c.callee)
            inst = "%s:%s@%d" % (f.name, alloc, c.line)
            aliases, slots = alias_set(prog, f, c)
            derefs = []
            for a in aliases:
                for u in f.uses.get(a, []):
                    d = deref_kind(prog, f, u, a)
                    if d:
                        derefs.append((u, d))
            bad = None
            for (u, d) in derefs:
                if not nonnull_guarded(f, u.bb, aliases, u):
                    bad = (u, d)
                    break
            # realloc over the only copy
            if alloc == "realloc":
                old = strip_casts(c.ops[0])
                for a in aliases:
                    for u in f.uses.get(a, []):
                        if u.op == "store" and strip_casts(u.ops[0]) in aliases and old.is_inst and old.op == "load" and \
                                same_loc(prog, f, u.ops[1], old.ops[0]) and not nonnull_guarded(f, u.bb, aliases, u):
                            bad = (u, "stores the unchecked realloc result over the only copy of the old pointer")
            if bad is None:
                chk.ok("E3", inst, c, "%d dereferencing uses, all under a non-NULL test" % len(derefs),
                       nontrivial=bool(derefs))
            elif (f.name, alloc) in E3_EXCEPTIONS:
                chk.exception("E3", inst, c, E3_EXCEPTIONS[(f.name, alloc)])
            else:
                u, d = bad
                chk.violation("E3", inst, u, "result of %s() at line %d is %s without a preceding NULL test: an allocation "
                              "failure crashes instead of being reported" % (alloc, c.line, d))
    return n


def same_loc(prog, f, p, q):
    p, q = strip_casts(p), strip_casts(q)
    if p is q:
        return True
    a, b = resolve_ptr(prog, p, f.unit), resolve_ptr(prog, q, f.unit)
    if a[0] is b[0] and a[1] == b[1] and a[2] and b[2]:
        return True
    if a[0].is_inst and b[0].is_inst and a[0].op == "load" and b[0].op == "load" and a[1] == b[1] and a[2] and b[2]:
        return same_loc(prog, f, a[0].ops[0], b[0].ops[0])
    return False


def alias_set(prog, f, c):
    """the allocation result, its casts, and reloads of the location it was stored to"""
    aliases = [c]
    slots = []
    k = 0
    while k < len(aliases):
        a = aliases[k]
        k += 1
        for u in f.uses.get(a, []):
            if u.op in ("bitcast",) and u not in aliases:
                aliases.append(u)
            elif u.op == "phi" and u not in aliases:
                # phi(alloc, null) or loop-carried copies
                others = [o for o in u.ops if o not in aliases and not (o.is_const and o.is_null)]
                if not others:
                    # a merge that the allocation result only enters over edges behind its NULL test carries no unchecked
                    # result: what can be NULL in it are the NULLs the program put there itself
                    inc = [(val, pr) for val, pr in zip(u.ops, u.x["inc"]) if val in aliases]
                    if inc and all(nonnull_guarded(f, pr, aliases) for (_v, pr) in inc):
                        continue
                    aliases.append(u)
            elif u.op == "store" and u.ops[0] is a:
                slots.append(u)
    for s in slots:
        for i in f.insts():
            if i.op == "load" and same_loc(prog, f, i.ops[0], s.ops[1]) and \
                    (f.inst_dominates(s, i)) and i not in aliases:
                # no other store to that location between s and i on the dominating path (approximation:
                # no other store to the same location in the function that dominates i and is dominated by s)
                clobber = False
                for j in f.insts():
                    if j.op == "store" and j is not s and same_loc(prog, f, j.ops[1], s.ops[1]) and \
                            f.inst_dominates(s, j) and f.inst_dominates(j, i):
                        clobber = True
                if not clobber:
                    aliases.append(i)
                    for u in f.uses.get(i, []):
                        if u.op == "bitcast" and u not in aliases:
                            aliases.append(u)
    return aliases, slots


DEREF_EXT = {"memcpy": (0, 1), "memmove": (0, 1), "memset": (0,), "strcpy": (0, 1), "strlen": (0,), "strcmp": (0, 1),
             "memcmp": (0, 1), "strcat": (0, 1), "strncpy": (0, 1), "sprintf": (0,), "snprintf": (0,),
             "qsort": (0,)}


def deref_kind(prog, f, u, a):
    if u.op == "load" and strip_casts(u.ops[0]) is a:
        return "read through"
    if u.op == "store" and strip_casts(u.ops[1]) is a:
        return "written through"
    if u.op == "getelementptr" and u.ops[0] is a:
        # address computation: dereferenced if the GEP result is loaded/stored/passed to a dereferencing callee
        for uu in f.uses.get(u, []):
            if uu.op == "load" and uu.ops[0] is u:
                return "read through (field access)"
            if uu.op == "store" and uu.ops[1] is u:
                return "written through (field access)"
            if uu.op == "getelementptr":
                k = deref_kind(prog, f, uu, u)
                if k:
                    return k
            if uu.op == "call":
                n = norm_callee(uu.callee)
                if n in DEREF_EXT and any(uu.ops[i] is u for i in DEREF_EXT[n] if i < len(uu.ops)):
                    return "passed to %s" % n
        return None
    if u.op == "call":
        n = norm_callee(u.callee)
        if n in DEREF_EXT and any(u.ops[i] is a for i in DEREF_EXT[n] if i < len(u.ops)):
            return "passed to %s" % n
    return None


def nonnull_guarded(f, bb, aliases, use=None):
    al = set(id(a) for a in aliases)
    for cond, outcome, br in f.guards_at(bb):
        v = cond
        pol = True    # cond true <=> pointer non-null
        if v.is_inst and v.op == "icmp" and v.pred in ("eq", "ne"):
            a, b = v.ops
            if b.is_const and b.is_null:
                tgt = a
            elif a.is_const and a.is_null:
                tgt = b
            else:
                continue
            if v.pred == "eq":
                pol = False
            if id(strip_casts(tgt)) in al or id(tgt) in al:
                if outcome == pol:
                    return True
    return False


UNLINKERS = {"unlink", "remove", "unlinkat", "DeleteFileW"}
O_CREAT = 0o100


def _may_have_bit(v, bit, depth=0):
    while v.is_inst and v.op in ("zext", "sext", "trunc"):
        v = v.ops[0]
    if v.is_const:
        return bool(v.is_int and (v.uval & bit))
    if depth > 6:
        return True
    if v.is_inst and v.op == "phi":
        return any(_may_have_bit(o, bit, depth + 1) for o in v.ops if o is not v)
    if v.is_inst and v.op == "select":
        return any(_may_have_bit(o, bit, depth + 1) for o in v.ops[1:])
    if v.is_inst and v.op == "or":
        return any(_may_have_bit(o, bit, depth + 1) for o in v.ops)
    return True


def _always_has_bit(v, mask, depth=0):
    while v is not None and v.is_inst and v.op in ("zext", "sext", "trunc"):
        v = v.ops[0]
    if v is None:
        return False
    if v.is_const:
        return bool(v.is_int and (v.uval & mask))
    if depth < 4 and v.is_inst and v.op == "or":
        return any(_always_has_bit(o, mask, depth + 1) for o in v.ops)
    if depth < 4 and v.is_inst and v.op in ("phi", "select"):
        ops = v.ops[1:] if v.op == "select" else [o for o in v.ops if o is not v]
        return bool(ops) and all(_always_has_bit(o, mask, depth + 1) for o in ops)
    return False


def _readonly_gate(f, flagsop):
    """(param index, mask): the open mode without O_CREAT is chosen exactly when  param & mask  is set"""
    v = flagsop
    while v.is_inst and v.op in ("zext", "sext", "trunc"):
        v = v.ops[0]
    if not (v.is_inst and v.op == "phi"):
        return None
    for val, pred in zip(v.ops, v.x["inc"]):
        if val.is_const and val.is_int and not (val.uval & O_CREAT):
            facts = list(f.guards_at(pred))
            for (cond, outcome, br) in facts:
                if not (cond.is_inst and cond.op == "icmp" and cond.pred in ("eq", "ne") and outcome in (True, False)):
                    continue
                a, z = cond.ops
                if not (z.is_const and z.is_int and z.sval == 0):
                    continue
                a = strip_casts(a)
                if a.is_inst and a.op == "and" and outcome == (cond.pred == "ne"):
                    for x, m in ((a.ops[0], a.ops[1]), (a.ops[1], a.ops[0])):
                        if m.is_const and m.is_int and strip_casts(x).is_arg:
                            return (strip_casts(x).idx, m.uval)
    return None


def rule_created_unlinked(chk, prog, tool):
    """K1-cleanup created-unlinked: from the system call that creates the output file upwards, no function reports a
    failure after the file came into existence without removing it.  Creators are found structurally: a function that
    calls open() with O_CREAT possible, then every function that returns success after a creator succeeded."""
    unl_fns = set()
    changed = True
    while changed:
        changed = False
        for f in prog.functions():
            if f in unl_fns or f.decl:
                continue
            for c in f.calls():
                nm = norm_callee(c.callee)
                ts, _ok = prog.call_targets(c) if nm not in UNLINKERS else ((), True)
                if nm in UNLINKERS or any((not isinstance(t, ExternFn)) and t in unl_fns for t in ts):
                    unl_fns.add(f)
                    changed = True
                    break

    def is_unlinker_call(i):
        if i.op != "call":
            return False
        if norm_callee(i.callee) in UNLINKERS:
            return True
        ts, _ok = prog.call_targets(i)
        return any((not isinstance(t, ExternFn)) and t in unl_fns for t in ts)

    creators = {}      # function -> gate (param idx, mask) or None
    for f in prog.functions():
        for c in f.calls():
            nm = norm_callee(c.callee)
            if nm in ("open", "open64") and len(c.ops) >= 2 and _may_have_bit(c.ops[1], O_CREAT):
                creators[f] = _readonly_gate(f, c.ops[1])
    if not creators:
        chk.broke("no function that creates a file with open(O_CREAT) found in %s" % tool)
        return
    n = 0
    pending = []
    work = list(creators)
    done = set()
    while work:
        K = work.pop()
        if K in done:
            continue
        done.add(K)
        gate = creators[K]
        for c in prog.callers_of(K):
            G = c.fn
            G.build()
            ggate = None
            if gate is not None:
                arg = c.ops[gate[0]] if gate[0] < len(c.ops) else None
                a = arg
                while a is not None and a.is_inst and a.op in ("zext", "sext", "trunc"):
                    a = a.ops[0]
                if _always_has_bit(arg, gate[1]):
                    continue                      # opened read-only: nothing is created
                if a is not None and a.is_arg:
                    ggate = (a.idx, gate[1])
            if G.name == "main":
                continue                          # main's exits are the business of the cleanup rules above
            # success edges of the call
            edges = []
            for u in G.uses.get(c, []):
                if u.op == "icmp" and u.ops[1].is_const and u.ops[1].is_int and u.ops[1].sval == 0 and u.pred in ("eq", "ne"):
                    for br in G.uses.get(u, []):
                        if br.op == "br" and len(br.x["succ"]) == 2:
                            edges.append((br, br.x["succ"][0] if u.pred == "eq" else br.x["succ"][1]))
            if not edges:
                continue                          # result handed on unchanged: G adds nothing of its own
            n += 1
            chk.analysed(G)
            inst = "%s:created-unlinked:%s->%s" % (tool, G.name, K.name)
            bad = None
            succeeds = False
            for (br, succ) in edges:
                zero = _e7_zero_known(G, br.bb) | {id(c)}
                for (v, r, path) in _e7_walk(prog, G, br, succ, [], zero):
                    is_zero = (v.is_const and v.is_int and v.sval == 0) or id(v) in zero
                    if is_zero:
                        succeeds = True
                        continue
                    if v.is_const and v.is_null:
                        pass
                    if any(is_unlinker_call(i) for b in path[1:] for i in b.insts):
                        continue
                    bad = r
                    break
                if bad is not None:
                    break
            if succeeds and G not in creators:
                creators[G] = ggate
                work.append(G)
            if bad is None:
                chk.ok("K1-cleanup", inst, c, "every failing exit after the file was created passes an unlink")
            else:
                pending.append((G, ggate, inst, c, bad, K))
    for (G, ggate, inst, c, bad, K) in pending:
        live = ggate is None
        if not live:
            for cs in prog.callers_of(G):
                a = cs.ops[ggate[0]] if ggate[0] < len(cs.ops) else None
                while a is not None and a.is_inst and a.op in ("zext", "sext", "trunc"):
                    a = a.ops[0]
                if not _always_has_bit(a, ggate[1]):
                    live = True
        if live:
            chk.violation("K1-cleanup", inst, bad, "%s can fail (return at line %d) after %s has created the output file, "
                          "without removing it: the caller takes the failure for 'nothing was created' and an empty or "
                          "partial image is left behind" % (G.name, bad.line, K.name))
        else:
            chk.ok("K1-cleanup", inst, c, "not called with creating flags in this tool: nothing is created", nontrivial=False)
    return n


def rule_cleanup(chk, prog, tool):
    """C13-d: the packers remove their output unless finish succeeded; exit status 0 only on the success edge"""
    main = None
    for f in prog.functions():
        if f.name == "main" and f.unit.src.startswith("bin/%s/" % tool):
            main = f
    if main is None:
        chk.broke("main of %s not found" % tool)
        return
    chk.analysed(main)
    em = ErrModel(prog)
    if tool in ("gensquashfs", "tar2sqfs"):
        init = [c for c in main.calls() if norm_callee(c.callee) == "sqfs_writer_init"]
        fin = [c for c in main.calls() if norm_callee(c.callee) == "sqfs_writer_finish"]
        cl = [c for c in main.calls() if norm_callee(c.callee) == "sqfs_writer_cleanup"]
        if len(init) != 1 or len(fin) != 1 or not cl:
            chk.violation("K1-cleanup", "%s:shape" % tool, main, "expected one sqfs_writer_init, one sqfs_writer_finish and "
                          "a sqfs_writer_cleanup in main (found %d/%d/%d)" % (len(init), len(fin), len(cl)))
            return
        init, fin = init[0], fin[0]
        # every path from a successful init to a return passes cleanup
        ok_edge = None
        for u in main.uses.get(init, []):
            if u.op == "icmp":
                for br in main.uses.get(u, []):
                    if br.op == "br" and len(br.x["succ"]) == 2:
                        ok_edge = br.x["succ"][1] if u.pred == "ne" else br.x["succ"][0]
        if ok_edge is None:
            chk.violation("K1-cleanup", "%s:init-checked" % tool, init, "result of sqfs_writer_init is not tested")
        else:
            clb = {c.bb for c in cl}
            seen, stack, bad = set(), [ok_edge], None
            while stack:
                b = stack.pop()
                if b in seen or b in clb:
                    continue
                seen.add(b)
                if b.term.op == "ret":
                    bad = b.term
                # a call to exit() also leaves
                for i in b.insts:
                    if i.op == "call" and norm_callee(i.callee) in ("exit", "_exit", "abort"):
                        bad = i
                stack.extend(b.succs)
            if bad is None:
                chk.ok("K1-cleanup", "%s:every-exit-cleans" % tool, cl[0],
                       "every path from a successful sqfs_writer_init to process exit passes sqfs_writer_cleanup")
            else:
                chk.violation("K1-cleanup", "%s:every-exit-cleans" % tool, bad,
                              "the process can exit after a successful sqfs_writer_init without sqfs_writer_cleanup: a "
                              "partial output file is left behind")
        # the status argument of cleanup is 0 (EXIT_SUCCESS) only on the success edge of finish
        for c in cl:
            st = c.ops[1]
            zero_preds = []
            if st.is_inst and st.op == "phi":
                for val, pred in zip(st.ops, st.x["inc"]):
                    if val.is_const and val.is_int and val.sval == 0:
                        zero_preds.append(pred)
                    elif not val.is_const:
                        zero_preds.append(pred)
            elif st.is_const and st.is_int and st.sval == 0:
                zero_preds.append(c.bb)
            elif not st.is_const:
                zero_preds.append(c.bb)
            ok = bool(zero_preds)
            for p in zero_preds:
                if not _edge_call_zero(main, fin, p):
                    ok = False
            if ok:
                chk.ok("K1-cleanup", "%s:success-status" % tool, c, "EXIT_SUCCESS reaches sqfs_writer_cleanup only from the "
                       "success edge of sqfs_writer_finish")
            else:
                chk.violation("K1-cleanup", "%s:success-status" % tool, c, "sqfs_writer_cleanup can be told EXIT_SUCCESS on a "
                              "path where sqfs_writer_finish did not succeed: a broken image is kept")
        # cleanup unlinks unless status == EXIT_SUCCESS
        g = prog.need_fn("sqfs_writer_cleanup")
        chk.analysed(g)
        un = [c for c in g.calls() if norm_callee(c.callee) in ("unlink", "remove", "unlinkat")]
        ok = False
        for u in un:
            for cond, outcome, br in g.guards_at(u.bb):
                if cond.is_inst and cond.op == "icmp" and g.params[1] in cond.ops:
                    z = [o for o in cond.ops if o.is_const and o.is_int and o.sval == 0]
                    if z and outcome == (cond.pred == "ne"):
                        ok = True
        if ok:
            chk.ok("K1-cleanup", "%s:cleanup-unlinks" % tool, un[0], "the output file is unlinked whenever status != EXIT_SUCCESS")
        else:
            chk.violation("K1-cleanup", "%s:cleanup-unlinks" % tool, g, "sqfs_writer_cleanup does not unlink the output on failure")
        rule_created_unlinked(chk, prog, tool)
        # the working directory is the one the output name is relative to when cleanup runs
        for g2 in prog.functions():
            if g2.decl or not g2.unit.src.startswith("bin/%s/" % tool):
                continue
            for c in g2.calls():
                if norm_callee(c.callee) != "chdir":
                    continue
                chk.analysed(g2)
                back = {x.bb for x in g2.calls() if norm_callee(x.callee) in ("fchdir",)}
                okb = None
                for u in g2.uses.get(c, []):
                    if u.op == "icmp":
                        for br in g2.uses.get(u, []):
                            if br.op == "br" and len(br.x["succ"]) == 2:
                                okb = br.x["succ"][1] if u.pred == "ne" else br.x["succ"][0]
                from ..util import feasible_reach
                rets = {r.bb for r in g2.rets()}
                bad = feasible_reach(g2, okb if okb is not None else c.bb, back, rets)
                inst = "%s:%s:chdir" % (tool, g2.name)
                if bad is None:
                    chk.ok("K1-cleanup", inst, c, "every path from the successful chdir() to the function's return goes back with fchdir()")
                else:
                    chk.violation("K1-cleanup", inst, c, "the packer changes its working directory and can return without going back: a "
                                  "relative output file name no longer names the image, so a failed run cannot remove it")
    # exit status: constant 0 is selected only in blocks no failure edge can reach
    zero_blocks = {b for (v, b) in ret_sources(main) if v.is_const and v.is_int and v.sval == 0}
    fes = []
    for c in main.calls():
        is_err = em.call_is_err(c)
        isptr = c.ty.endswith("*") and c.callee is not None and prog.fn(c.callee, main.unit) is not None
        if is_err:
            fes += [(c, s_, fact) for (s_, fact) in failure_edges(main, c)]
        elif isptr:
            fes += [(c, s_, fact) for (s_, fact) in failure_edges(main, c, pointer=True)]
    inst = "%s:exit-0" % tool
    if not zero_blocks:
        chk.broke("main of %s never returns the constant 0" % tool)
    bad = None
    for (c, s_, fact) in fes:
        if consistent_reach(main, s_, c, fact, zero_blocks):
            bad = c
            break
    if bad is None:
        chk.ok("K1-status", inst, main, "exit status 0 is unreachable from all %d failure edges in main" % len(fes))
    else:
        chk.violation("K1-status", inst, bad, "after %s failed, main can still reach the block that selects exit status 0" % (
            norm_callee(bad.callee) or "a call"))


def _edge_call_zero(f, call, block):
    for cond, outcome, br in f.guards_at(block):
        if cond.is_inst and cond.op == "icmp" and cond.pred in ("eq", "ne") and strip_casts(cond.ops[0]) is call and \
                cond.ops[1].is_const and cond.ops[1].is_int and cond.ops[1].sval == 0:
            if outcome == (cond.pred == "eq"):
                return True
    return False


def rule_submit(chk, prog):
    """C13-e: a failing submit makes the block processor return non-zero"""
    n = 0
    for f in prog.functions():
        for c in f.calls():
            if slot_call(c) == ("struct.thread_pool_t", "submit"):
                n += 1
                chk.analysed(f)
                inst = "%s:submit" % f.name
                zero_blocks = {b for (v, b) in ret_sources(f) if v.is_const and v.is_int and v.sval == 0}
                fe = failure_edges(f, c)
                bad = [s_ for (s_, fact) in fe if consistent_reach(f, s_, c, fact, zero_blocks)]
                if fe and not bad:
                    chk.ok("E1-submit", inst, c, "on the failure edge of submit the function cannot return 0")
                else:
                    chk.violation("E1-submit", inst, c, "a failing thread_pool submit is not propagated (the function can "
                                  "still return 0, or the result is not tested)")
    if n == 0:
        chk.broke("no call through thread_pool_t.submit found")


def _forward(f, v):
    out, stack, seen = [], [v], set()
    while stack:
        x = stack.pop()
        if id(x) in seen:
            continue
        seen.add(id(x))
        for u in f.uses.get(x, []):
            if u.op in ("phi", "select", "sext", "zext", "trunc"):
                out.append(u)
                stack.append(u)
    return out


def may_keep(prog, g, k, depth=0, memo=None):
    """may g retain (store into the heap / hand to a worker queue) the object passed as parameter k?"""
    memo = memo if memo is not None else {}
    key = (g, k)
    if key in memo:
        return memo[key]
    memo[key] = False
    par = g.params[k]
    res = False
    for i in g.insts():
        if i.op == "store" and strip_casts(i.ops[0]) is par:
            b = resolve_ptr(prog, i.ops[1], g.unit)[0]
            if not (b.is_inst and b.op == "alloca"):
                res = True
        elif i.op == "call":
            for ai, a in enumerate(i.ops):
                if strip_casts(a) is not par:
                    continue
                if slot_call(i) == ("struct.thread_pool_t", "submit"):
                    res = True
                elif i.callee and depth < 3:
                    h = prog.fn(i.callee, g.unit)
                    if h is not None and not h.decl and may_keep(prog, h.build(), ai, depth + 1, memo):
                        res = True
    memo[key] = res
    return res


def rule_handover(chk, prog, seen):
    """single-owner work blocks: after a block held in an object field was handed to a function that may keep it,
    the field is overwritten on every path to the return (otherwise the block has two owners: double free)"""
    BLK = "%struct.sqfs_block_t*"
    memo = {}
    n = 0
    for f in prog.functions():
        for c in f.calls():
            if not c.callee:
                continue
            g = prog.fn(c.callee, f.unit)
            if g is None or g.decl:
                continue
            for ai, a in enumerate(c.ops):
                if a.is_const or getattr(a, "ty", "") != BLK:
                    continue
                v = strip_casts(a)
                if not (v.is_inst and v.op == "load"):
                    continue
                p = strip_casts(v.ops[0])
                if not (p.is_inst and p.op == "getelementptr" and p.field()):
                    continue
                base = resolve_ptr(prog, p, f.unit)[0]
                if base.is_inst and base.op == "alloca":
                    continue
                if not may_keep(prog, g.build(), ai, memo=memo):
                    continue
                key = (f.unit.src, f.name, c.line, c.col)
                if key in seen:
                    continue
                seen.add(key)
                n += 1
                chk.analysed(f)
                fld = p.field()
                inst = "%s:%s(%s)" % (f.name, g.name, fld[1])
                # every path from the call to a return passes a store to the same field
                resets = [i for i in f.insts() if i.op == "store" and strip_casts(i.ops[1]).is_inst and
                          strip_casts(i.ops[1]).op == "getelementptr" and strip_casts(i.ops[1]).field() == fld]
                rb = {}
                for r_ in resets:
                    rb.setdefault(r_.bb, []).append(r_.pos)
                # taking the block out of the field between the load and the call is as good
                ok = any(f.inst_dominates(v, r_) and f.inst_dominates(r_, c) for r_ in resets) or \
                    any(pos > c.pos for pos in rb.get(c.bb, []))
                bad = None
                if not ok:
                    seenb, stack = set(), list(c.bb.succs)
                    while stack:
                        b = stack.pop()
                        if b in seenb:
                            continue
                        seenb.add(b)
                        if b in rb:
                            continue
                        if b.term.op == "ret":
                            bad = b.term
                            break
                        stack.extend(b.succs)
                    ok = bad is None and bool(c.bb.succs)
                if ok:
                    chk.ok("K8-handover", inst, c, "the field is overwritten on every path after the block was handed over")
                else:
                    chk.violation("K8-handover", inst, bad or c,
                                  "%s may keep the block, but a path returns with '%s' still pointing at it: the block has "
                                  "two owners and is released twice" % (g.name, fld[1]))
    return n


def run(chk):
    chk.explanation = (
        "K5 error discipline and unconditional cleanup, decided on LLVM IR of the four tools' link closures: ERR = "
        "int-returning functions that can return non-zero and transitively reach an allocator, an I/O system call or a "
        "sqfs_file/istream/ostream slot (fix-point over the call graph with slot resolution). E1 every result of a call "
        "to ERR (or through those slots) is used; E2 no failure edge falls straight into 'return 0'; E3 every result of "
        "malloc/calloc/realloc/strdup/alloc_flex/alloc_array is NULL-tested (directly or via the location it was stored "
        "to) before it is dereferenced, and realloc never overwrites the only copy unchecked; packers: every exit after a "
        "successful sqfs_writer_init passes sqfs_writer_cleanup, EXIT_SUCCESS only from the success edge of "
        "sqfs_writer_finish, cleanup unlinks on failure; all four mains: exit status 0 unreachable from every failure "
        "edge; submit failures propagate. Further rules: E4 (an error result obtained in a loop is examined before the next iteration replaces it), E5 (results of tri-state functions are not collapsed to ==0), E6 (an error edge does not return a regular value), E9 (every failure of a fault source or of a libsquashfs/libutil call in tool-level code is reported on stderr there or on every way up to main's exit: bottom-up summary of functions that hand a failure on unreported, path enumeration from the call under the assumption that it failed), E8 (a failing call in a loop whose result is only compared with 0 does not lead round the loop to the next attempt without a trace), E7 (no path from an allocation-failure edge or a negative-result edge returns 0 / a status variable pinned to 0: path enumeration with phis resolved by edge and loads by the last store), init-unlinks and chdir-undone under K1-cleanup. K6-capagree: where an allocation failure is survived by asking for less, the capacity recorded is the one the allocation that succeeded was sized for; E7 does not report a failure that a second allocation on the path made good. E4-replaced: outside loops too, the status of a call that can fail is not replaced by the status of a later call on a way on which it was not looked at. K8-freestack: a pointer that can name a local array on some way into free() is released only behind a test that excludes the array. E7 also takes the NULL answer of the project's own constructors (functions whose every NULL return lies behind a tested call result) as a failure edge.")
    chk.assumptions = ["that the handling of a consumed error is *right* is not decided, only that the error reaches a decision"]
    seen1, seen2, seen3, seen4, seen5, seen6, seen7 = set(), set(), set(), set(), set(), set(), set()
    seen8, seen9, seen10 = set(), set(), set()
    seen5r = set()
    n1 = n3 = 0
    for tool in TOOLS:
        prog = load_program(tool)
        em = ErrModel(prog)
        n1 += rule_e1(chk, prog, em, tool, seen1)
        rule_e2(chk, prog, em, tool, seen2)
        rule_e4(chk, prog, em, tool, seen5)
        rule_e4_replaced(chk, prog, em, tool, seen5r)
        rule_e5(chk, prog, em, tool, seen6)
        rule_e6(chk, prog, em, tool, seen7)
        rule_e7(chk, prog, em, tool, seen8)
        rule_e8(chk, prog, em, tool, seen9)
        from ..diag import run_diag
        run_diag(chk, prog, em, tool, tristate_functions(prog, em), _e7_walk, _e7_zero_known, "E9", E9_EXCEPTIONS, seen10)
        n3 += rule_e3(chk, prog, tool, seen3)
        rule_cleanup(chk, prog, tool)
        if tool == "gensquashfs":
            rule_submit(chk, prog)
        rule_handover(chk, prog, seen4)
        if tool == "tar2sqfs":
            from ..tarrules import t1_rule, t2_rule
            t1_rule(chk, prog)
            t2_rule(chk, prog)
    chk.note("distinct ERR call sites: %d, allocation sites: %d" % (n1, n3))
    chk.floor("E1", 450)
    chk.floor("E2", 250)
    chk.floor("E3", 120)
    chk.floor("E4", 60)
    chk.floor("E5", 15)
    chk.floor("E6", 20)
    chk.floor("E7", 80)
    chk.floor("E8", 20)
    chk.floor("E9", 100)
    chk.floor("K1-cleanup", 9)
    chk.floor("K1-status", 4)
    chk.floor("E1-submit", 1)
    chk.floor("K8-handover", 4)
    # "do not crash" on the failure paths: nothing but allocator memory is released
    from ..dangling import run_free_stack
    run_free_stack(chk, load_program("all"), "K8-freestack", lambda src: "/test/" not in src and not src.startswith("extras/"))
    chk.floor("T1-eof", 1)
    chk.floor("T2-short", 5)
    # an allocation failure that is "survived" by asking for less must leave the container describing what it got
    from ..capagree import run_capagree
    run_capagree(chk, load_program("gensquashfs"))
    chk.floor("K6-capagree", 3)
    controls(chk)


def controls(chk):
    from ..controls import control_program
    from ..report import Check
    prog = control_program("c13_controls.c")
    em = ErrModel(prog)
    sub = Check("C13-control", chk.tier)
    rule_e1(sub, prog, em, "ctl", set())
    rule_e2(sub, prog, em, "ctl", set())
    rule_e3(sub, prog, "ctl", set())
    got = {(o["rule"], o["function"]) for o in sub.obl if o["verdict"] == "VIOLATED"}
    chk.control("E1", ("E1", "ctl_drop") in got, "discarded result of a function that can fail")
    chk.control("E2", ("E2", "ctl_swallow") in got, "if (ret) return 0")
    chk.control("E3", ("E3", "ctl_nocheck") in got, "malloc result dereferenced unchecked")
    rule_e4(sub, prog, em, "ctl", set())
    rule_e5(sub, prog, em, "ctl", set())
    got = {(o["rule"], o["function"]) for o in sub.obl if o["verdict"] == "VIOLATED"}
    chk.control("E4", ("E4", "ctl_loop_overwrite") in got, "error result replaced by the next iteration's result")
    chk.control("E5", ("E5", "ctl_collapse") in got, "tri-state result compared with == 0 only")
    rule_e7(sub, prog, em, "ctl", set())
    got = {(o["rule"], o["function"]) for o in sub.obl if o["verdict"] == "VIOLATED"}
    chk.control("E7", ("E7", "ctl_fail_zero") in got, "goto fail with the status variable still 0")
    rule_e8(sub, prog, em, "ctl", set())
    got = {(o["rule"], o["function"]) for o in sub.obl if o["verdict"] == "VIOLATED"}
    chk.control("E8", ("E8", "ctl_try_next") in got, "failure taken for 'try the next candidate'")
    rule_e4_replaced(sub, prog, em, "ctl", set())
    got = {(o["rule"], o["function"]) for o in sub.obl if o["verdict"] == "VIOLATED"}
    chk.control("E4-replaced", ("E4-replaced", "ctl_replaced") in got, "status replaced by a later status unexamined")
    chk.control("E4-replaced/silent", ("E4-replaced", "ctl_replaced_checked") not in got, "a status that was tested first must not be reported")
    from ..dangling import run_free_stack
    run_free_stack(sub, prog, "K8-freestack", lambda src: True)
    got = {(o["rule"], o["function"]) for o in sub.obl if o["verdict"] == "VIOLATED"}
    chk.control("K8-freestack", ("K8-freestack", "ctl_free_stack") in got, "small-buffer idiom released without excluding the local array")
    chk.control("K8-freestack/silent", ("K8-freestack", "ctl_free_heap_only") not in got, "free() behind `p != small` must not be reported")
    chk.control("silent-on-good", not any(fn in ("ctl_good", "ctl_loop_checked", "ctl_no_collapse", "ctl_fail_set", "ctl_try_next_told") for (_r, fn) in got),
                "correct functions must not be reported")
