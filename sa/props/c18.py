"""C18 -- path canonicalisation: funnel (K1) and data independence of the two string functions."""
from ..ir import load_program, strip_casts, norm_callee, ExternFn
from ..build import AnalysisBroken
from ..util import resolve_ptr, backward_slice, const_int
from ..effects import fields_in_slice

ALPHABET = {47: "'/'", 46: "'.'", 0: "NUL"}
STRING_FNS = ("canonicalize_name", "is_filename_sane")


def result_consumed(f, call):
    """call result reaches a branch / return / assertion"""
    seen, stack = set(), [call]
    while stack:
        v = stack.pop()
        if id(v) in seen:
            continue
        seen.add(id(v))
        for u in f.uses.get(v, []):
            if u.op in ("br", "switch", "ret"):
                return True
            if u.op in ("icmp", "zext", "sext", "trunc", "phi", "select", "xor", "or", "and"):
                stack.append(u)
            if u.op == "store":
                # stored to a local that is tested later: accept loads of that slot
                p = strip_casts(u.ops[1])
                if p.is_inst and p.op == "alloca":
                    for l in f.uses.get(p, []):
                        if l.op == "load":
                            stack.append(l)
    return False


def success_edge_dominates(f, call, block, zero_is_success=True):
    for cond, outcome, br in f.guards_at(block):
        v = cond
        pol = True   # cond true <=> result != 0
        if v.is_inst and v.op == "icmp" and v.pred in ("eq", "ne") and v.ops[1].is_const and v.ops[1].is_int \
                and v.ops[1].sval == 0:
            if v.pred == "eq":
                pol = False
            v = v.ops[0]
        while v.is_inst and v.op in ("zext", "sext", "trunc"):
            v = v.ops[0]
        if v is call:
            nonzero = (outcome == pol)
            if nonzero != zero_is_success:
                return True
    return False


def same_location(prog, f, a, b):
    """two pointer values denote the same string: same SSA value, or loads of the same field / local"""
    a, b = strip_casts(a), strip_casts(b)
    if a is b:
        return True
    if a.is_inst and b.is_inst and a.op == "load" and b.op == "load":
        pa, pb = strip_casts(a.ops[0]), strip_casts(b.ops[0])
        if pa is pb:
            return True
        ra, rb = resolve_ptr(prog, pa, f.unit), resolve_ptr(prog, pb, f.unit)
        if ra[0] is rb[0] and ra[1] == rb[1] and ra[2] and rb[2]:
            return True
        if ra[0].is_inst and rb[0].is_inst and ra[0].op == "load" and rb[0].op == "load" and ra[1] == rb[1]:
            return same_location(prog, f, ra[0], rb[0])
    return False


def funnel_results(chk, progs):
    """F1: the verdict of every canonicalize_name / is_filename_sane call is consumed"""
    seen = set()
    for tool, prog in progs.items():
        for f in prog.functions():
            for c in f.calls():
                n = norm_callee(c.callee)
                if n not in STRING_FNS:
                    continue
                key = (f.unit.src, f.name, c.line, c.col)
                if key in seen:
                    continue
                seen.add(key)
                chk.analysed(f)
                inst = "%s:%s@%d" % (f.name, n, len([k for k in seen if k[1] == f.name and k[0] == f.unit.src]))
                if result_consumed(f, c):
                    chk.ok("K5-funnel", inst, c, "verdict of %s reaches a branch/return/assert" % n)
                else:
                    chk.violation("K5-funnel", inst, c, "the verdict of %s is ignored: a refused name (a '..' component) "
                                  "would be used anyway" % n)
    return len(seen)


def funnel_dominance(chk, progs):
    """F2: name sinks dominated by the accepting edge of the sanitiser applied to the same string"""
    # (a) tar iterator: sqfs_dir_entry_create(name) in the next() implementation of lib/tar/src/iterator.c
    prog = progs["tar2sqfs"]
    nexts = [f for f in prog.slot_impls(("struct.sqfs_dir_iterator_t", "next")) if f.unit.src == "lib/tar/src/iterator.c"]
    if not nexts:
        chk.broke("tar iterator next() implementation not found")
    for f in nexts:
        f.build()
        chk.analysed(f)
        sinks = f.calls("sqfs_dir_entry_create")
        sinks = list(sinks)
        if not sinks:
            chk.broke("tar iterator next() no longer calls sqfs_dir_entry_create")
        for s in sinks:
            ok = False
            for c in f.calls("canonicalize_name"):
                if same_location(prog, f, c.ops[0], s.ops[0]) and success_edge_dominates(f, c, s.bb):
                    ok = True
            if not ok:
                # the same on feasible paths only: no path reaches the sink without an accepting edge, once paths on which
                # an unwritten field would answer the same test differently are left out (corr.py)
                from ..corr import reachable_avoiding, outcome_edges
                acc = []
                for c in f.calls("canonicalize_name"):
                    if same_location(prog, f, c.ops[0], s.ops[0]):
                        acc += outcome_edges(f, c, nonzero=False)
                if acc and reachable_avoiding(prog, f, s.bb, acc) is None:
                    ok = True
            if ok:
                chk.ok("K1-funnel", "tar:next->sqfs_dir_entry_create", s,
                       "archive member names become directory entries only after canonicalize_name accepted them")
            else:
                chk.violation("K1-funnel", "tar:next->sqfs_dir_entry_create", s,
                              "an archive member name reaches sqfs_dir_entry_create without a successful "
                              "canonicalize_name on the same string ('../x' or '/abs' members enter the tree)")
    # (a') every other use of the member name in next(): matching it against patterns, comparing it, handing it to a helper.
    # Two spellings of one name must be treated alike, so the raw name is looked at by nobody but the sanitiser.
    for f in nexts:
        cans = list(f.calls("canonicalize_name"))
        if not cans:
            continue
        from ..corr import reachable_avoiding, outcome_edges
        for u in f.calls():
            nm = norm_callee(u.callee) if u.callee else None
            if u in cans or nm in ("sqfs_dir_entry_create", "free", "sqfs_free") or (nm or "").startswith("llvm."):
                continue
            hits = [a for a in u.ops if any(same_location(prog, f, c.ops[0], a) for c in cans)]
            if not hits:
                continue
            ok = any(same_location(prog, f, c.ops[0], hits[0]) and success_edge_dominates(f, c, u.bb) for c in cans)
            if not ok:
                acc = []
                for c in cans:
                    if same_location(prog, f, c.ops[0], hits[0]):
                        acc += outcome_edges(f, c, nonzero=False)
                ok = bool(acc) and reachable_avoiding(prog, f, u.bb, acc) is None
            inst = "tar:next->%s" % (nm or "indirect")
            if ok:
                chk.ok("K1-funnel", inst, u, "the member name is handed to %s only after canonicalize_name accepted it" % (nm or "the call"))
            else:
                chk.violation("K1-funnel", inst, u, "the raw archive member name is handed to %s before canonicalize_name has seen it: "
                              "'./x', '/x' and 'x' are one entry to the packer but three different strings to this call "
                              "(an exclude pattern matches one spelling and not the others)" % (nm or "a call"))
    # (b) pack-file line handler: the path token handed to entries / callbacks
    prog = progs["gensquashfs"]
    unit = prog.by_src.get("bin/gensquashfs/src/fstree_from_file.c")
    if unit is None:
        chk.broke("fstree_from_file.c not in gensquashfs")
    else:
        n = 0
        for f in unit.functions.values():
            if f.decl:
                continue
            f.build()
            cn = list(f.calls("canonicalize_name"))
            if not cn:
                continue
            chk.analysed(f)
            for c in cn:
                path = strip_casts(c.ops[0])
                # every later use of the same string as a call argument / copy source must be dominated by success
                for u in f.insts():
                    if u is c or u.op != "call":
                        continue
                    if not any(same_location(prog, f, a, path) for a in u.ops if not a.is_const):
                        continue
                    if not (f.inst_dominates(c, u) or f.reaches(c.bb, u.bb)):
                        continue
                    nm = norm_callee(u.callee) or "indirect"
                    if nm in ("fprintf", "fputs", "printf", "strcmp"):
                        continue
                    n += 1
                    if success_edge_dominates(f, c, u.bb):
                        chk.ok("K1-funnel", "packfile:%s->%s" % (f.name, nm), u, "path token used only after canonicalize_name accepted it")
                    else:
                        chk.violation("K1-funnel", "packfile:%s->%s" % (f.name, nm), u,
                                      "the path token of a pack-file line reaches %s on a path where canonicalize_name "
                                      "did not accept it" % nm)
        if n == 0:
            chk.broke("no use of the canonicalised pack-file path found")
    # (c) hard-link targets in the tree node constructor
    lib = progs["gensquashfs"]
    unit = lib.by_src.get("lib/fstree/src/fstree.c")
    if unit is None:
        chk.broke("lib/fstree/src/fstree.c not in gensquashfs")
        return
    found = False
    for f in unit.functions.values():
        if f.decl:
            continue
        f.build()
        for c in f.calls("canonicalize_name"):
            found = True
            chk.analysed(f)
            # the failing edge must only reach returns of NULL
            bad = False
            for u in f.uses.get(c, []):
                if u.op == "icmp":
                    for br in f.uses.get(u, []):
                        if br.op != "br" or len(br.x["succ"]) != 2:
                            continue
                        fail = br.x["succ"][0] if u.pred == "ne" else br.x["succ"][1]
                        seen, stack = set(), [fail]
                        while stack:
                            b = stack.pop()
                            if b in seen:
                                continue
                            seen.add(b)
                            t = b.term
                            if t.op == "ret":
                                v = t.ops[0]
                                if v.is_inst and v.op == "phi":
                                    # value selected for predecessors inside `seen`
                                    for val, pred in zip(v.ops, v.x["inc"]):
                                        if pred in seen and not (val.is_const and val.is_null):
                                            bad = True
                                elif not (v.is_const and v.is_null):
                                    bad = True
                            stack.extend(b.succs)
            if not bad:
                chk.ok("K1-funnel", "fstree:%s:hard-link-target" % f.name, c,
                       "a hard-link target refused by canonicalize_name never yields a tree node")
            else:
                chk.violation("K1-funnel", "fstree:%s:hard-link-target" % f.name, c,
                              "a node is returned although canonicalize_name refused its hard-link target")
    if not found:
        chk.violation("K1-funnel", "fstree:hard-link-target", unit.functions and list(unit.functions.values())[0],
                      "the tree node constructor no longer canonicalises hard-link targets")


def data_independence(chk, prog):
    """C18-b: bytes of the argument are only compared for equality with '/', '.', NUL or copied within the buffer"""
    done = set()

    def check_fn(f, pidx, top):
        key = (f, pidx)
        if key in done:
            return
        done.add(key)
        f.build()
        chk.analysed(f)
        P = f.params[pidx]

        def derived(v, _seen=None):
            _seen = _seen or set()
            v = strip_casts(v)
            if id(v) in _seen:
                return False
            _seen.add(id(v))
            if v is P:
                return True
            if v.is_inst and v.op == "getelementptr":
                return derived(v.ops[0], _seen)
            if v.is_inst and v.op in ("phi", "select"):
                ops = v.ops[1:] if v.op == "select" else v.ops
                return any(derived(o, _seen) for o in ops)
            return False
        nload = 0
        for i in f.insts():
            if i.op == "load" and derived(i.ops[0]) and i.ty == "i8":
                nload += 1
                # follow the byte
                stack, seen = [i], set()
                while stack:
                    v = stack.pop()
                    if id(v) in seen:
                        continue
                    seen.add(id(v))
                    for u in f.uses.get(v, []):
                        inst = "%s:byte@%d" % (f.name, i.line)
                        if u.op in ("sext", "zext"):
                            stack.append(u)
                        elif u.op == "icmp":
                            other = u.ops[1] if u.ops[0] is v else u.ops[0]
                            if u.pred in ("eq", "ne") and other.is_const and other.is_int and (other.uval & 0xFF) in ALPHABET:
                                chk.ok("DI-byte", inst, u, "compared for (in)equality with %s" % ALPHABET[other.uval & 0xFF])
                            else:
                                chk.violation("DI-byte", inst, u,
                                              "a byte of the name is compared with something other than '/', '.', NUL by "
                                              "(in)equality (%s %r): the function's verdict depends on more than the "
                                              "{'/','.',other} class of each byte" % (u.pred, other))
                        elif u.op == "store" and u.ops[0] is v:
                            if derived(u.ops[1]):
                                chk.ok("DI-byte", inst, u, "copied within the same buffer")
                            else:
                                chk.violation("DI-byte", inst, u, "a byte of the name is stored outside the argument buffer")
                        else:
                            chk.violation("DI-byte", inst, u, "a byte of the name flows into '%s': not a pure "
                                          "classification/copy" % u.op)
            elif i.op == "store" and not derived(i.ops[1]):
                b = resolve_ptr(prog, i.ops[1], f.unit)[0]
                if not (b.is_inst and b.op == "alloca"):
                    chk.violation("DI-store", "%s:store@%d" % (f.name, i.line), i, "store outside the argument buffer")
            elif i.op == "store" and derived(i.ops[1]):
                v = i.ops[0]
                if v.is_const and v.is_int and (v.uval & 0xFF) in ALPHABET:
                    chk.ok("DI-store", "%s:store@%d" % (f.name, i.line), i, "stores %s into the buffer" % ALPHABET[v.uval & 0xFF])
                elif v.is_inst and v.op == "load" and derived(v.ops[0]):
                    pass
                else:
                    chk.violation("DI-store", "%s:store@%d" % (f.name, i.line), i, "stores a computed byte into the name")
            elif i.op == "call":
                n = norm_callee(i.callee)
                for ai, a in enumerate(i.ops):
                    if a.is_const or not derived(a):
                        continue
                    inst = "%s:call %s" % (f.name, n)
                    if n in ("strcmp",):
                        other = i.ops[1 - ai]
                        s = _const_string(prog, f, other)
                        if s in (".", ".."):
                            chk.ok("DI-call", inst, i, "compared with the constant \"%s\"" % s)
                        else:
                            chk.violation("DI-call", inst, i, "name compared with a string other than \".\" / \"..\"")
                    else:
                        g = prog.fn(n, f.unit) if n else None
                        if g is not None and not g.decl:
                            check_fn(g, ai, False)
                            chk.ok("DI-call", inst, i, "callee analysed with the same rule", nontrivial=False)
                        else:
                            chk.violation("DI-call", inst, i, "the name is passed to %s, whose use of the bytes is unknown" % n)
        return nload
    for name in STRING_FNS:
        f = prog.need_fn(name)
        check_fn(f, 0, True)


def _const_string(prog, f, v):
    v = strip_casts(v)
    if v.is_const and v.gname:
        g = f.unit.globals.get(v.gname)
        if g and g.get("init") and g["init"][0] == "s":
            b = bytes(x & 0xFF for x in g["init"][1])
            return b.rstrip(b"\0").decode("latin-1")
    return None


def final_pass_rule(chk, prog):
    """K1-finalpass (a belief rule): canonicalize_name rewrites the string in place and then hands it to a clean-up pass of
    its own unit (normalize_slashes).  That the pass is there says the rewrite can leave something behind (a separator in
    front of a dropped component).  If it runs on some way from the rewrite to the success return, it runs on all of them: a
    condition under which it is skipped is a claim about the rewrite's output that nothing checks."""
    from ..errflow import ret_sources
    f = prog.need_fn("canonicalize_name")
    f.build()
    n = 0
    par = f.params[0]
    # blocks that write into the buffer (the rewrite)
    rewrite = set()
    for i in f.insts():
        if i.op == "store" and any(x is par for x in backward_slice(i.ops[1], phi_control=False)):
            if any(i.bb in l[1] for l in f.loops):
                rewrite.add(i.bb)
    succ_ret = {b for (v, b) in ret_sources(f) if strip_casts(v).is_const and strip_casts(v).is_int and strip_casts(v).sval == 0}

    def reach(starts, avoid=()):
        seen, work = set(), list(starts)
        while work:
            b = work.pop()
            if b in seen or b in avoid:
                continue
            seen.add(b)
            work.extend(b.succs)
        return seen
    for c in f.calls():
        g = prog.fn(c.callee, f.unit) if c.callee else None
        if g is None or g.decl or g.unit is not f.unit or not c.ops:
            continue
        if not any(x is par for x in backward_slice(c.ops[0], phi_control=False)):
            continue
        g.build()
        if not any(i.op == "store" and any(x is g.params[0] for x in backward_slice(i.ops[1], phi_control=False))
                   for i in g.insts()):
            continue            # a predicate over the string, not a pass that rewrites it
        after = reach(rewrite)
        if c.bb not in after or not (reach([c.bb]) & succ_ret):
            continue            # the pass in front of the rewrite
        n += 1
        chk.analysed(f)
        inst = "%s:%s@%d" % (f.name, g.name, c.line)
        skipped = reach(rewrite, avoid={c.bb}) & succ_ret
        # a success return inside the avoiding set must not be reachable only through c.bb
        if not skipped:
            chk.ok("K1-finalpass", inst, c, "every way from the rewrite to the success return passes the clean-up pass")
        else:
            chk.violation("K1-finalpass", inst, c, "%s runs on some ways from the in-place rewrite to the success return and is "
                          "skipped on others: the string is handed back in the shape the rewrite left it in (a separator in front "
                          "of a dropped '.' survives, the result is not canonical and not idempotent)" % g.name)
    return n


def run(chk):
    chk.explanation = (
        "Funnel and data-independence rules for the two path-string functions, decided on LLVM IR: (F1) the verdict of "
        "every canonicalize_name / is_filename_sane call in all five tools reaches a branch, return or assertion; (F2) "
        "the tar iterator, the pack-file line handler and the tree node constructor use an untrusted name only under "
        "the accepting edge of the sanitiser applied to the same string; (DI) inside canonicalize_name, "
        "normalize_slashes and is_filename_sane every byte loaded from the argument is only compared for (in)equality "
        "with '/', '.', NUL or copied within the same buffer, so the functions' behaviour on all strings is "
        "determined by their behaviour over the three-letter alphabet {'/','.',other}. The input/output relation "
        "itself (exactly-when '..', idempotence, never grows) is value-level and not decided. In the tar iterator every use "
        "of the member name (pattern matching included) lies behind the accepting edge of canonicalize_name, on feasible "
        "paths; the unpack side (rdsquashfs): tree walks gate their own node's name, image-derived paths come from "
        "get_path + canonicalize_name (the rules of C06, looking through copies and hand-filled buffers). K1-finalpass: the clean-up pass canonicalize_name applies to its own output runs on every way from the in-place rewrite to the success return or on none.")
    chk.assumptions = [
                       "value-level relation of canonicalize_name (rejects exactly '..' components, idempotent) is not decided"]
    progs = {t: load_program(t) for t in ("gensquashfs", "tar2sqfs", "rdsquashfs", "sqfs2tar", "sqfsdiff")}
    n = funnel_results(chk, progs)
    funnel_dominance(chk, progs)
    data_independence(chk, progs["rdsquashfs"])
    final_pass_rule(chk, progs["rdsquashfs"])
    chk.floor("K1-finalpass", 1)
    # the unpack side: every tree walk that reaches the file system gates its own node's name, image-derived paths come
    # from get_path + canonicalize_name only (the rules of C06, run here for the funnel property itself)
    from .c06 import PathSinks, name_gate_rule, sanitiser_rule
    from .. import taint
    taint.CONTENT[0] = True
    sinks = PathSinks(progs["rdsquashfs"])
    name_gate_rule(chk, progs["rdsquashfs"], sinks, sinks.reaches_M())
    sanitiser_rule(chk, progs["rdsquashfs"], sinks)
    chk.floor("K1-gate", 7)
    chk.floor("K1-sanitise", 5)
    chk.floor("K5-funnel", 22)
    chk.floor("K1-funnel", 4)
    chk.floor("DI-byte", 15)
    controls(chk)


def controls(chk):
    from ..controls import control_program
    from ..report import Check
    prog = control_program("c18_controls.c")
    sub = Check("C18-control", chk.tier)
    data_independence(sub, prog)
    funnel_results(sub, {"ctl": prog})
    got = {(o["rule"], o["function"]) for o in sub.obl if o["verdict"] == "VIOLATED"}
    chk.control("DI-byte", ("DI-byte", "is_filename_sane") in got, "name byte compared with an extra character")
    chk.control("K5-funnel", ("K5-funnel", "ctl_ignores") in got, "verdict of canonicalize_name ignored")
    chk.control("silent-on-good", not any(fn == "canonicalize_name" for (_r, fn) in got), "clean function must not be reported")
