"""C19 -- copies of library objects (rule kind K8, DESIGN.md section 3/C19)."""
from ..ir import load_program, strip_casts, norm_callee
from ..build import AnalysisBroken
from ..copyflow import Engine, Flow, U, N, B, F, K, X, ALLOCATORS
from ..util import resolve_ptr, is_ptr, is_fnptr, struct_of_type

# Pointer fields that a copy may legitimately share with the original, with the
# reason.  kind "always-null": re-verified on every run (no store of a non-null
# value to that member of that owner type anywhere in the library).
BORROWED = {
    ("struct.sqfs_dir_reader_t", "dcache.key_context"):
        ("always-null", "the directory cache compares plain numbers; its context pointer is never set"),
}

ZEROING_ALLOC = {"calloc"}


def alloc_init_state(prog, call):
    name = call.callee
    if name in ZEROING_ALLOC:
        return N
    g = prog.fn(name, call.fn.unit)
    if g is not None and not g.decl:
        g.build()
        # project allocator: zeroing iff every returned non-null value is a calloc result
        rets = [r.ops[0] for r in g.rets() if r.ops]
        vals = []
        for v in rets:
            stack = [v]
            seen = set()
            while stack:
                x = strip_casts(stack.pop())
                if id(x) in seen:
                    continue
                seen.add(id(x))
                if x.is_inst and x.op == "phi":
                    stack.extend(x.ops)
                else:
                    vals.append(x)
        nn = [x for x in vals if not (x.is_const and x.is_null)]
        if nn and all(x.is_inst and x.op == "call" and x.callee in ZEROING_ALLOC for x in nn):
            return N
    return U


def find_roots(prog, fn):
    """allocator calls whose result is returned"""
    roots = []
    for r in fn.rets():
        if not r.ops:
            continue
        stack, seen = [r.ops[0]], set()
        while stack:
            x = strip_casts(stack.pop())
            if id(x) in seen:
                continue
            seen.add(id(x))
            if x.is_inst and x.op == "phi":
                stack.extend(x.ops)
            elif x.is_inst and x.op == "call" and x.callee in ALLOCATORS | {"alloc_flex", "alloc_array"}:
                if x not in roots:
                    roots.append(x)
    return roots


def obj_type_of(fn, root):
    for u in fn.uses.get(root, []):
        if u.op == "bitcast" and struct_of_type(u.ty):
            return u.ty
    return None


def verify_always_null(prog, owner, path):
    """no instruction stores a non-null value into owner.path; generic stores to
    the leaf member through a bare container pointer must be null, memset or a
    propagation of the same member"""
    parts = path.split(".")
    leaf = parts[-1]
    bad = []
    for f in prog.functions():
        for i in f.insts():
            if i.op != "store":
                continue
            p = strip_casts(i.ops[1])
            if not (p.is_inst and p.op == "getelementptr"):
                continue
            names = [n for (_s, n) in p.fields()]
            if not names or names[-1] != leaf:
                continue
            structs = [s for (s, _n) in p.fields()]
            v = i.ops[0]
            if v.is_const and v.is_null:
                continue
            # chain through the owner, or a store via a pointer to the owner type
            base = resolve_ptr(prog, p, f.unit)[0]
            via_owner = owner in structs
            if not via_owner:
                # generic container code: propagation of the same member is fine
                vv = strip_casts(v)
                if vv.is_inst and vv.op == "load":
                    q = strip_casts(vv.ops[0])
                    if q.is_inst and q.op == "getelementptr" and [n for (_s, n) in q.fields()][-1:] == [leaf]:
                        continue
                # a store through a local container pointer that was derived from the owner?
                b2 = base
                if b2.is_inst and b2.op == "getelementptr" and owner in [s for (s, _n) in b2.fields()]:
                    via_owner = True
                else:
                    # another owner sets its own context (e.g. the xattr writer): not this owner
                    continue
            if via_owner and names[-len(parts):] == parts:
                bad.append(i)
    return bad


def copy_routine_paths(chk, prog, rule="H6-paths"):
    """container copy routines of the form  f(T *dst, const T *src)  (one parameter is only read, the other written
    through): every path that returns success reads the same set of source fields.  A shortcut that returns success
    after looking at fewer fields than the regular path hands out a copy that lacks what the regular path would have
    taken over (loop bodies are looked at once)."""
    import re
    from .c13 import _e7_walk
    n = 0
    seen = set()

    class _Start:
        pass
    for f in prog.functions():
        if f.decl or "/test/" in f.unit.src or f.qname in seen:
            continue
        ps = [p_ for p_ in f.params if re.match(r"^%struct\.[\w.]+\*$", p_.ty)]
        bytype = {}
        for p_ in ps:
            bytype.setdefault(re.sub(r"\.\d+\*$", "*", p_.ty), []).append(p_)
        pair = [l for l in bytype.values() if len(l) == 2]
        if len(pair) != 1 or f.ret not in ("i32", "i64"):
            continue
        f.build()

        def written(p_):
            for i in f.insts():
                if i.op == "store":
                    q = strip_casts(i.ops[1])
                    if q.is_inst and q.op == "getelementptr" and strip_casts(q.ops[0]) is p_:
                        return True
                elif i.op == "call" and norm_callee(i.callee) in ("memset", "memcpy") and i.ops and strip_casts(i.ops[0]) is p_:
                    return True
            return False
        a, b = pair[0]
        wa, wb = written(a), written(b)
        if wa == wb:
            continue
        src = b if wa else a
        # it has to look like a copy: the source's fields are read
        reads = [i for i in f.insts() if i.op == "load" and strip_casts(i.ops[0]).is_inst and
                 strip_casts(i.ops[0]).op == "getelementptr" and strip_casts(i.ops[0]).field() and
                 strip_casts(strip_casts(i.ops[0]).ops[0]) is src]
        if len(reads) < 2 or "copy" not in f.name and "clone" not in f.name and "dup" not in f.name:
            continue
        seen.add(f.qname)
        st = _Start()
        st.bb = f.blocks[0]
        sets = []
        for (v, r, path) in _e7_walk(prog, f, st, None, [], set()):
            if not (v.is_const and v.is_int and v.sval == 0):
                continue
            fields = set()
            for b_ in path:
                for i in b_.insts:
                    if i.op == "load":
                        q = strip_casts(i.ops[0])
                        if q.is_inst and q.op == "getelementptr" and q.field() and strip_casts(q.ops[0]) is src:
                            fields.add(q.field()[1])
            sets.append((frozenset(fields), r))
        if not sets:
            continue
        n += 1
        chk.analysed(f)
        full = frozenset().union(*[s_ for (s_, _r) in sets])
        short = [(s_, r) for (s_, r) in sets if s_ != full]
        inst = "%s:success-paths" % f.name
        if not short:
            chk.ok(rule, inst, f, "all %d success paths read the source fields %s" % (len(sets), sorted(full)))
        else:
            s_, r = short[0]
            chk.violation(rule, inst, r, "a path returns success after reading only %s of the source, the regular path reads %s: "
                          "the copy handed out on that path lacks %s" % (sorted(s_), sorted(full), sorted(full - s_)))
    return n


def _writes_directly(prog, t, k, depth=0, _memo=None):
    """t stores into the object its k-th parameter points to (itself or in a project function it hands the parameter to);
    calls through the object's own function pointers are its methods and do not count"""
    _memo = _memo if _memo is not None else {}
    key = (t, k)
    if key in _memo:
        return _memo[key]
    _memo[key] = False
    if t.decl or k >= len(t.params):
        return False
    t.build()
    par = t.params[k]

    def rooted(p):
        p = strip_casts(p)
        for _ in range(8):
            if p is par:
                return True
            if p.is_inst and p.op == "getelementptr":
                p = strip_casts(p.ops[0])
                continue
            return False
        return False
    res = False
    for i in t.insts():
        if i.op == "store" and rooted(i.ops[1]):
            res = True
        elif i.op == "call" and i.callee:
            nm = norm_callee(i.callee)
            if nm in ("memset", "memcpy", "memmove") and i.ops and rooted(i.ops[0]):
                res = True
            elif depth < 2:
                g = prog.fn(i.callee, t.unit)
                if g is not None and not g.decl:
                    for j, a in enumerate(i.ops):
                        if rooted(a) and _writes_directly(prog, g, j, depth + 1, _memo):
                            res = True
    _memo[key] = res
    return res


def rule_shared_mutable(chk, prog, hooks):
    """H10-shared: a copy hook may share a sub-object with the original (sqfs_grab: one object, two owners) only if nothing
    changes that sub-object afterwards.  For every member a copy hook fills with sqfs_grab(original->member): no function of
    the program hands `obj->member` of an object of that type to a project function that writes through that parameter
    (e.g. sqfs_frag_table_read refills the table in place).  A member that is refilled in place has to be sqfs_copy'ed."""
    from ..memver import _call_writes_arg
    n = 0
    for h in hooks:
        h.build()
        for c in h.calls():
            if norm_callee(c.callee) != "sqfs_grab" or not c.ops:
                continue
            src = strip_casts(c.ops[0])
            if not (src.is_inst and src.op == "load"):
                continue
            q = strip_casts(src.ops[0])
            if not (q.is_inst and q.op == "getelementptr" and q.field()):
                continue
            fld_ = q.field()
            n += 1
            chk.analysed(h)
            inst = "%s:%s" % (h.name, fld_[1])
            bad = None
            for g in prog.functions():
                if g.decl or "/test/" in g.unit.src:
                    continue
                for x in g.build().calls():
                    if not x.callee:
                        continue
                    t = prog.fn(x.callee, g.unit)
                    if t is None or t.decl or norm_callee(x.callee) in ("sqfs_drop", "sqfs_destroy", "sqfs_grab", "sqfs_copy"):
                        continue
                    for k, a in enumerate(x.ops):
                        v = strip_casts(a)
                        if v.is_inst and v.op == "load":
                            qq = strip_casts(v.ops[0])
                            if qq.is_inst and qq.op == "getelementptr" and qq.field() and qq.field()[1] == fld_[1] and \
                                    qq.field()[0].split(".")[1] == fld_[0].split(".")[1] and _writes_directly(prog, t, k):
                                bad = (g, x)
            if bad is None:
                chk.ok("H10-shared", inst, c, "the shared sub-object is not written through by any function that is handed it as this member")
            else:
                g, x = bad
                chk.violation("H10-shared", inst, c, "the copy shares '%s' with the original (sqfs_grab), but %s hands that member to %s, "
                              "which writes through it: reloading through one of the two objects changes what the other "
                              "answers" % (fld_[1], g.name, norm_callee(x.callee)))
    return n


def run(chk):
    prog = load_program("libsquashfs.la")
    chk.explanation = (
        "K8 copy-hook discipline, decided on LLVM IR of the current tree: for every function stored in "
        "sqfs_object_t.copy a forward dataflow tracks, per leaf slot of the new object, whether it is "
        "uninitialised / null / bit-copied from the original / freshly acquired; the destroy hook installed "
        "at the same sqfs_object_init site yields the set of slots it releases. H1 header initialised on every "
        "success path, H2 every released slot re-acquired (or null, or exempt under the same immutable-flag "
        "predicate), H3 no pointer slot keeps aliasing the original, no write/release through a bit-copied "
        "pointer (error paths included); container copy helpers are analysed with the same engine (H4). H5-state: fields that the library accumulates over an object's life (x = x +/- k somewhere) are taken over by nodes that a copy hook allocates (whole-node copy or field read from the source). H7-state: a copy hook that builds its object member by member (no wholesale memcpy) reads every scalar member the library writes during use from the original. H6-paths: every success path of a container copy routine f(T *dst, const T *src) reads the same source fields. K9-copytag: a copy that takes the tag of a block cache over takes the payload over too (or resets the tag). H8-reopen: a copy hook opens no path and creates no file of its own; H9-initagree: a copy hook that sets a codec library state up passes the configuration values the constructor passes. H10-shared: a member that a copy hook shares with the original through sqfs_grab is not handed, as that member, to any function that writes through it.")
    chk.assumptions = [
        "library/codec functions behave as named in the tables of sa/copyflow.py (release / pure / writes-arg)",
        "behavioural equivalence of copy and original and leak freedom are not decided",
    ]
    eng = Engine(prog)
    hooks = sorted(prog.slot_impls(("struct.sqfs_object_t", "copy")), key=lambda f: f.qname)
    chk.note("%s; copy hooks discovered through slot sqfs_object_t.copy: %d" % (prog.db_source, len(hooks)))
    # pair with destroy hook at the sqfs_object_init site
    init = prog.need_fn("sqfs_object_init", "lib/sqfs/src/frag_table.c")
    pairs = {}
    for f in prog.functions():
        for c in f.calls("sqfs_object_init"):
            if len(c.ops) < 3:
                continue
            cp = prog.fn_targets(c.ops[2], f.unit)
            ds = prog.fn_targets(c.ops[1], f.unit)
            for h in cp:
                for d in ds:
                    pairs.setdefault(h, set()).add(d)
    n_pairs = 0
    for h in hooks:
        h.build()
        chk.analysed(h)
        ds = pairs.get(h)
        if not ds or len(ds) != 1:
            chk.broke("copy hook %s has %d destroy siblings" % (h.qname, len(ds or ())))
            continue
        d = list(ds)[0].build()
        chk.analysed(d)
        n_pairs += 1
        check_pair(chk, prog, eng, h, d)
    from ..acccopy import run_acccopy, run_statecopy
    run_acccopy(chk, prog, "H5-state", hooks, lambda src: "/test/" not in src)
    run_statecopy(chk, prog, "H7-state", hooks, lambda src: "/test/" not in src)
    chk.floor("H7-state", 5)
    # H8-reopen (who-may-call): a copy hook duplicates the handles its original holds; it does not open anything by name.
    # A path names whatever is there *now*: after a rename or unlink the "copy" reads another file or cannot be made.
    OPEN_BY_NAME = {"open", "open64", "openat", "openat64", "fopen", "fopen64", "sqfs_native_file_open", "sqfs_file_open",
                    "sqfs_istream_open_file", "sqfs_ostream_open_file", "opendir", "CreateFileW", "CreateFileA"}
    for hk in hooks:
        if hk.decl:
            continue
        cl, _e, _u = prog.reachable_from([hk], stop=lambda g, u=hk.unit: g.unit is not u)
        bad = None
        for g in cl:
            for c in g.build().calls():
                if norm_callee(c.callee) in OPEN_BY_NAME:
                    bad = c
        chk.analysed(hk)
        if bad is None:
            chk.ok("H8-reopen", hk.name, hk, "the copy hook opens nothing by name")
        else:
            chk.violation("H8-reopen", hk.name, bad, "the copy hook obtains its resource with %s(): a name, not the original's handle -- the "
                          "copy is of whatever the name denotes when the copy is made" % norm_callee(bad.callee))
    chk.floor("H8-reopen", 10)
    # H9-initagree (sibling agreement): where a copy hook sets up library state with the same library call as the
    # constructor of its unit (deflateInit2, ...), the two calls agree argument by argument on what is a constant and on
    # the constant: a parameter that the constructor derives from the configuration and the copy hook hard-codes is lost
    # in every copy.
    from ..ir import ExternFn
    n9 = 0
    for hk in hooks:
        if hk.decl:
            continue
        for c in hk.build().calls():
            if not c.callee or prog.fn(c.callee, hk.unit) is not None:
                continue
            nm = norm_callee(c.callee)
            if not nm or not any(t in nm.lower() for t in ("init", "create", "new")) or nm in ("calloc", "malloc"):
                continue
            twins = [d for g in hk.unit.functions.values() if not g.decl and g is not hk
                     for d in g.build().calls() if norm_callee(d.callee) == nm]
            for d in twins:
                n9 += 1
                chk.analysed(hk)
                inst = "%s~%s:%s" % (hk.name, d.fn.name, nm)
                diff = None
                for k, (a, b) in enumerate(zip(c.ops, d.ops)):
                    ca = a.is_const and getattr(a, "is_int", False)
                    cb = b.is_const and getattr(b, "is_int", False)
                    if ca != cb or (ca and cb and a.sval != b.sval):
                        diff = (k, a, b)
                        break
                if diff is None:
                    chk.ok("H9-initagree", inst, c, "same shape of arguments as the constructor's call")
                else:
                    chk.violation("H9-initagree", inst, c, "argument %d of %s is %s in the copy hook and %s in %s: what the original was "
                                  "set up with is not what its copies are set up with" % (
                                      diff[0], nm, "the constant %d" % diff[1].sval if diff[1].is_const else "computed",
                                      "the constant %d" % diff[2].sval if diff[2].is_const else "computed", d.fn.name))
    if n9 == 0:
        chk.note("H9-initagree: no copy hook shares a library set-up call with a constructor of its unit")
    # a copy that takes the tag of a cache over takes the payload over too (K9-copytag of C10)
    from .c10 import copy_tag_rule
    copy_tag_rule(chk, prog)
    chk.floor("K9-copytag", 1)
    rule_shared_mutable(chk, prog, hooks)
    chk.floor("H10-shared", 3)
    copy_routine_paths(chk, load_program("all"), "H6-paths")
    chk.floor("H6-paths", 3)
    chk.floor("H5-state", 3)
    chk.floor("H1", 13)
    chk.floor("H2", 20)
    chk.floor("H3-retain", 5)
    if eng.summ.assumed_readonly_ext:
        chk.note("externals assumed not to write through pointer arguments: " +
                 ", ".join(sorted(eng.summ.assumed_readonly_ext)))
    controls(chk)


def check_pair(chk, prog, eng, h, d, tag=""):
    sn, dleaves, rel, dfl = eng.release_summary(d)
    roots = find_roots(prog, h)
    if len(roots) != 1:
        chk.broke("copy hook %s: %d allocation roots flow to the return value" % (h.qname, len(roots)))
        return
    root = roots[0]
    oty = obj_type_of(h, root)
    if oty is None:
        chk.broke("copy hook %s: type of the new object not found" % h.qname)
        return
    osn, leaves = eng.leaves_of_ptr_type(oty, h.unit)
    if sn is not None and osn != sn:
        chk.note("%s: destroy sibling works on %s, copy on %s" % (h.name, sn, osn))
    init = alloc_init_state(prog, root)
    # conditional releases: predicates common to every release site of the slot
    cond = {}
    for off, evs in rel.items():
        common = None
        for e in evs:
            common = set(e.guards) if common is None else (common & set(e.guards))
        if common:
            cond[off] = frozenset(common)
            # the whole embedded member handed to the releasing helper is owned under the same predicate
            for e in evs:
                if e.member:
                    for (o, sz, t, n) in dleaves:
                        if e.member[0] <= o < e.member[1] and o not in rel:
                            cond.setdefault(o, frozenset(common))
    fl = Flow(eng, h, [root], h.params[0], leaves, [init], cond_release=cond).run()
    succ = fl.success_states("ptr")
    if not succ:
        chk.broke("copy hook %s has no success return" % h.qname)
        return
    name_of = {o: n for (o, sz, t, n) in leaves}
    type_of = {o: t for (o, sz, t, n) in leaves}
    hn = tag + h.name

    def merged(off):
        acc = frozenset()
        for r, st in succ:
            acc |= st.slots.get(off, frozenset([init]))
        return acc

    # H1: destroy and copy slots of the header (offsets from sqfs_object_t)
    hdr = prog.struct(struct_of_type(h.params[0].ty), h.unit)
    for e in hdr["elems"]:
        if e.get("n") in ("destroy", "copy"):
            st = merged(e["off"])
            site = succ[0][0]
            if st <= {B, F}:
                chk.ok("H1", "header:" + e["n"], site, "state %s at success return" % sorted(st), fn=hn)
            else:
                chk.violation("H1", "header:" + e["n"], site,
                              "object header slot '%s' is %s on a path returning the new object: sqfs_drop() of the "
                              "copy would call through an uninitialised/null hook" % (e["n"], sorted(st)), fn=hn)
    # H2
    for off in sorted(rel):
        st = merged(off)
        site = succ[0][0]
        nm = name_of.get(off, "+%d" % off)
        if st <= {F, N, X}:
            chk.ok("H2", nm, site, "released by %s; state %s%s" % (d.name, sorted(st),
                   " (conditional on %s)" % sorted(cond[off]) if off in cond else ""), fn=hn)
        else:
            chk.violation("H2", nm, site,
                          "%s releases '%s' but the copy still holds %s there on a success path "
                          "(B = bit-copied from the original, U = uninitialised)" % (d.name, nm, sorted(st)), fn=hn)
    # H3 retained aliases
    for (o, sz, t, n) in leaves:
        if not is_ptr(t) or is_fnptr(t) or o in rel:
            continue
        st = merged(o)
        site = succ[0][0]
        if X in st and B not in st:
            chk.ok("H3-retain", n, site, "state %s: member owned only under %s (same predicate as in %s)" % (
                sorted(st), sorted(cond.get(o, ())), d.name), fn=hn)
        elif B in st:
            key = (osn, n)
            if key in BORROWED:
                kind, why = BORROWED[key]
                if kind == "always-null":
                    bad = verify_always_null(prog, osn, n)
                    if bad:
                        chk.violation("H3-retain", n, bad[0], "table says %s.%s is never set, but it is stored here; "
                                      "the copy keeps the original's pointer" % (osn, n), fn=hn)
                        continue
                chk.exception("H3-retain", n, site, "%s: %s" % (kind, why), fn=hn)
            else:
                chk.violation("H3-retain", n, site,
                              "pointer field '%s' of the copy still aliases the original's value at return "
                              "(not released by %s, not re-assigned, not in the borrowed table)" % (n, d.name), fn=hn)
        else:
            chk.ok("H3-retain", n, site, "state %s" % sorted(st), fn=hn)
    # H3 events
    kinds = {"write-through": "H3-write", "write-orig": "H3-write", "release-alias": "H3-release"}
    seen = set()
    for e in fl.events.values():
        if e.kind not in kinds:
            continue
        nm = name_of.get(e.off, "?") if e.off is not None else "?"
        if e.kind == "write-orig":
            nm = "orig"
        key = (kinds[e.kind], nm, e.site.line)
        if key in seen:
            continue
        seen.add(key)
        chk.violation(kinds[e.kind], nm, e.site, e.detail, fn=hn)
    n_ev = sum(1 for i in h.insts() if i.op in ("store", "call"))
    chk.ok("H3-flow", "stores+calls", h, "%d stores/calls interpreted, %d blocks, events %d" % (
        n_ev, len(h.blocks), len(seen)), fn=hn)


def controls(chk):
    """positive controls: tiny units with one violation each, compiled through the same pipeline"""
    from ..controls import control_program
    prog = control_program("c19_controls.c")
    eng = Engine(prog)
    sub = type(chk)(chk.pid + "-control", chk.tier)
    for hname, dname in (("bad_hdr_copy", "ctl_destroy"), ("bad_alias_copy", "ctl_destroy"),
                         ("bad_release_copy", "ctl_destroy"), ("good_copy", "ctl_destroy")):
        check_pair(sub, prog, eng, prog.need_fn(hname).build(), prog.need_fn(dname).build())
    got = {(o["rule"], o["function"]) for o in sub.obl if o["verdict"] == "VIOLATED"}
    chk.control("H1", ("H1", "bad_hdr_copy") in got, "calloc'd copy without header")
    chk.control("H2", ("H2", "bad_alias_copy") in got, "released buffer left bit-copied")
    chk.control("H3-write", ("H3-write", "bad_alias_copy") in got, "store through bit-copied pointer")
    chk.control("H3-release", ("H3-release", "bad_release_copy") in got, "error path frees bit-copied pointer")
    chk.control("silent-on-good", not any(f == "good_copy" for (_r, f) in got), "correct hook must not be reported")
