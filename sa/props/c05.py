"""C05 -- reading an untrusted image never corrupts memory: bounded sinks (K6) and reader guards (K1/K13)."""
import json
import os

from ..ir import load_program, strip_casts, norm_callee
from ..build import AnalysisBroken, VERIF
from ..util import resolve_ptr, backward_slice, const_int
from ..effects import slot_call, fields_in_slice, success_points
from ..k6 import run_k6, run_k6_src

# sinks the engine cannot derive a bound for, each read and reasoned (function, sink kind, ordinal within function)
EXCEPTIONS = {
    ("sqfs_tree_node_get_path", "memcpy", 0):
        "two-pass length/fill: the buffer is allocated with the sum of strlen(name)+1 over the very parent chain that "
        "the second loop walks backwards; the tree is not modified in between",
}


SRC_EXCEPTIONS = {
}


DANGLING_EXCEPTIONS = {
    ("ht_delete_function", 0): "entry destructor of the fragment hash table: only called from hash_table_destroy, which "
                               "frees the whole table right after the walk; entry->data is not read again",
}


def anchored_files():
    for l in open(os.path.join(VERIF, "properties.jsonl")):
        p = json.loads(l)
        if p["id"] == "C05":
            return set(p["anchors"]["files"])
    raise AnalysisBroken("property C05 not found")


def descent_rule(chk, prog):
    """K1-loop (iterator side): an implementation of sqfs_dir_iterator_t.open_subdir that opens a directory of the image
    (it reaches sqfs_dir_reader_open_dir) first compares the identity of the directory it is about to enter with the
    directories it came through: a loop over stored identities with an equality test whose match leads to a failing
    return, placed so that the opening call cannot be reached without passing it.  Without it a directory that contains
    one of its own ancestors is descended into forever (sqfs2tar)."""
    impls = prog.slot_impls(("struct.sqfs_dir_iterator_t", "open_subdir"))
    opener = prog.fn("sqfs_dir_reader_open_dir")
    if opener is None:
        raise AnalysisBroken("sqfs_dir_reader_open_dir not found")
    reach_cache = {}

    def reaches_opener(f, depth=0):
        if f in reach_cache:
            return reach_cache[f]
        reach_cache[f] = False
        if f is opener:
            reach_cache[f] = True
            return True
        if f.decl or depth > 4:
            return False
        f.build()
        for c in f.calls():
            if c.callee is None:
                continue          # slot calls: delegation to another iterator, which has its own obligation
            t = prog.fn(c.callee, f.unit)
            if t is not None and reaches_opener(t, depth + 1):
                reach_cache[f] = True
                return True
        return False

    n = 0
    for f in sorted(impls, key=lambda x: x.name):
        if f.decl or not reaches_opener(f):
            continue
        f.build()
        n += 1
        chk.analysed(f)
        creates = [c for c in f.calls() if c.callee and prog.fn(c.callee, f.unit) is not None and
                   reaches_opener(prog.fn(c.callee, f.unit))]
        ok = False
        for (h, body) in f.loops:
            if not all(f.dominates(h, c.bb) for c in creates):
                continue
            bodyvals = set(id(i) for b in body for i in b.insts)
            for b in body:
                t = b.term
                if not (t.op == "br" and len(t.x["succ"]) == 2 and t.ops[0].is_inst and t.ops[0].op == "icmp" and
                        t.ops[0].pred == "eq"):
                    continue
                a, b2 = t.ops[0].ops
                va = a.is_inst and id(a) in bodyvals and a.op == "load"
                vb = b2.is_inst and id(b2) in bodyvals and b2.op == "load"
                if not (va or vb):
                    continue
                # the match leads to a failing return without creating anything
                hit = t.x["succ"][0]
                seen, stack, fails = set(), [hit], False
                bad = False
                while stack:
                    x = stack.pop()
                    if x in seen:
                        continue
                    seen.add(x)
                    if any(c.bb is x for c in creates):
                        bad = True
                    if x.term.op == "ret":
                        fails = True
                    stack.extend(s_ for s_ in x.succs if s_ not in body or True)
                if fails and not bad:
                    ok = True
        if not ok:
            ok = _ancestor_predicate_guard(prog, f, creates)
        inst = "%s:ancestor-check" % f.name
        if ok:
            chk.ok("K1-loop", inst, creates[0] if creates else f, "the directory about to be entered is compared with the ones "
                   "it was reached through before it is opened")
        else:
            chk.violation("K1-loop", inst, creates[0] if creates else f, "%s opens a sub directory of the image without comparing it "
                          "with the directories it was reached through: a directory that contains one of its own ancestors "
                          "is descended into forever" % f.name)
    if n == 0:
        chk.broke("no implementation of sqfs_dir_iterator_t.open_subdir opens image directories")
    return n


def _leads_to_failing_return(f, start, creates):
    seen, stack, fails = set(), [start], False
    while stack:
        x = stack.pop()
        if x in seen:
            continue
        seen.add(x)
        if any(c.bb is x for c in creates):
            return False
        if x.term.op == "ret":
            fails = True
        stack.extend(x.succs)
    return fails


def _ancestor_predicate_guard(prog, f, creates):
    """the comparison loop sits in a static predicate of the same unit: the predicate loops over stored identities, answers
    non-zero exactly on the paths behind a match of its equality test, and the caller's branch on that answer leads, on
    'match', to a return that creates nothing; the call is placed so that the opening call cannot be reached without it"""
    from ..errflow import ret_sources
    for c in f.calls():
        if not c.callee:
            continue
        h = prog.fn(c.callee, f.unit)
        if h is None or h.decl or h.unit is not f.unit or h is f or h.ret not in ("i1", "i8", "i32"):
            continue
        if not all(f.dominates(c.bb, x.bb) for x in creates):
            continue
        h.build()
        pred_ok = False
        for (hh, body) in h.loops:
            bodyvals = set(id(i) for b in body for i in b.insts)
            for b in body:
                t = b.term
                if not (t.op == "br" and len(t.x["succ"]) == 2 and t.ops[0].is_inst and t.ops[0].op == "icmp" and
                        t.ops[0].pred in ("eq", "ne")):
                    continue
                a, b2 = t.ops[0].ops
                va = a.is_inst and id(a) in bodyvals and a.op == "load"
                vb = b2.is_inst and id(b2) in bodyvals and b2.op == "load"
                if not (va or vb):
                    continue
                # the other side is handed in by the caller
                other = b2 if va else a
                if not any(x.is_arg for x in [other] + list(backward_slice(other, phi_control=False))):
                    continue
                hit = t.x["succ"][0 if t.ops[0].pred == "eq" else 1]
                if hit in body:
                    continue
                behind, st = set(), [hit]
                while st:
                    x = st.pop()
                    if x in behind:
                        continue
                    behind.add(x)
                    st.extend(x.succs)
                srcs = ret_sources(h)
                if not srcs:
                    continue
                good = True
                for (v, sb) in srcs:
                    w = strip_casts(v)
                    if not (w.is_const and w.is_int):
                        good = False
                        break
                    on_hit = sb in behind and sb is not h.blocks[0] and (sb is hit or not any(sb is q for q in body))
                    if sb is hit or (on_hit and not _reached_without(h, sb, hit)):
                        good = good and w.uval != 0
                    else:
                        good = good and w.uval == 0
                if good:
                    pred_ok = True
        if not pred_ok:
            continue
        # the caller's branch on the answer
        for b in f.blocks:
            t = b.term
            if not (t.op == "br" and len(t.x["succ"]) == 2):
                continue
            cond = t.ops[0]
            match = None
            w = cond
            while w.is_inst and w.op in ("trunc", "zext") and w.ops[0].is_inst:
                w = w.ops[0]
            if w is c:
                match = t.x["succ"][0]
            elif w.is_inst and w.op == "icmp" and w.pred in ("ne", "eq"):
                x0, x1 = w.ops
                y = x0
                while y.is_inst and y.op in ("trunc", "zext") and y.ops[0].is_inst:
                    y = y.ops[0]
                if y is c and x1.is_const and x1.is_int and x1.uval == 0:
                    match = t.x["succ"][0 if w.pred == "ne" else 1]
            if match is None:
                continue
            if all(f.dominates(b, x.bb) for x in creates) and _leads_to_failing_return(f, match, creates):
                return True
    return False


def _reached_without(h, target, avoid):
    """is `target` reachable from the entry without passing through `avoid`"""
    if target is avoid:
        return False
    return h.reaches(h.blocks[0], target, avoid=(avoid,))


def out_contract_rule(chk, prog):
    """K6-outcontract: callers of sqfs_compressor_t.do_block size their copies by its result, taking for granted that a
    positive result is at most the room they offered (`outsize`).  Where an implementation answers a number it *decoded
    from the input block* (the unpacked size in an LZMA header), that number is compared with outsize on every path to
    the return -- a bound by anything else (the configured block size) lets a crafted header make the caller copy more
    than the decoder was allowed to produce."""
    from ..errflow import ret_sources
    from ..bounds2 import Bounder, Cap
    n = 0
    for f in sorted(prog.slot_impls(("struct.sqfs_compressor_t", "do_block")), key=lambda x: x.qname):
        if f.decl or len(f.params) < 5:
            continue
        f.build()
        inp, outsize = f.params[1], f.params[4]
        for (v, b) in ret_sources(f):
            w = strip_casts(v)
            if w.is_const:
                continue
            decoded = False
            for x in backward_slice(v, phi_control=False, limit=400):
                if x.is_inst and x.op == "load":
                    base = strip_casts(resolve_ptr(prog, x.ops[0], f.unit)[0])
                    if base is inp:
                        decoded = True
                elif x.is_inst and x.op == "call" and x.callee:
                    # a static helper that picks the number out of the block it is handed
                    h = prog.fn(x.callee, f.unit)
                    if h is not None and not h.decl and h.unit is f.unit:
                        for k_, a_ in enumerate(x.ops[:len(h.params)]):
                            if strip_casts(resolve_ptr(prog, a_, f.unit)[0]) is inp:
                                par = h.build().params[k_]
                                if any(i_.op == "load" and strip_casts(resolve_ptr(prog, i_.ops[0], h.unit)[0]) is par for i_ in h.insts()):
                                    decoded = True
            if not decoded:
                continue
            n += 1
            chk.analysed(f)
            inst = "%s:result@%d" % (f.name, b.term.line or 0)
            if Bounder(prog, f).bounded(v, b.term, Cap(syms=[outsize], desc="outsize")):
                chk.ok("K6-outcontract", inst, b.term, "a size decoded from the input is answered only where it was compared with outsize")
            else:
                chk.violation("K6-outcontract", inst, b.term, "%s answers a size it decoded from the input block without having compared it "
                              "with outsize: the callers copy that many bytes out of a buffer of outsize bytes" % f.name)
    return n


def loop_guard_rule(chk, prog):
    """C05-b: in the recursive tree reader the link of a child and the recursion are dominated by the rejecting
    test of the ancestor check"""
    unit = prog.by_src.get("lib/common/src/read_tree.c")
    if unit is None:
        raise AnalysisBroken("read_tree.c not in the closure")
    # the ancestor check: a function that walks ->parent and compares inode numbers
    checks = []
    for f in unit.functions.values():
        if f.decl:
            continue
        f.build()
        parent_loads = [i for i in f.insts() if i.op == "load" and strip_casts(i.ops[0]).is_inst and
                        strip_casts(i.ops[0]).op == "getelementptr" and strip_casts(i.ops[0]).field() and
                        strip_casts(i.ops[0]).field()[1] == "parent"]
        if parent_loads and f.loops and f.ret in ("i1", "i8", "i32") and len(f.params) >= 2:
            cmp_inum = any(i.op == "icmp" and any("inode_number" in n for (_s, n) in fields_in_slice(i)) for i in f.insts())
            if cmp_inum:
                checks.append(f)
    if not checks:
        chk.violation("K1-loop", "ancestor-check", list(unit.functions.values())[0],
                      "no function comparing a node's inode number with its ancestors was found in read_tree.c: a directory "
                      "loop in the image recurses without end")
        return
    n = 0
    for f in unit.functions.values():
        if f.decl:
            continue
        calls = [c for c in f.calls() if prog.fn(c.callee or "", unit) in checks]
        if not calls:
            continue
        chk.analysed(f)
        # linking a freshly read node into the tree: stores to its 'parent' field
        links = [i for i in f.insts() if i.op == "store" and strip_casts(i.ops[1]).is_inst and
                 strip_casts(i.ops[1]).op == "getelementptr" and strip_casts(i.ops[1]).field() and
                 strip_casts(i.ops[1]).field()[1] == "parent" and
                 strip_casts(i.ops[1]).field()[0].startswith("struct.sqfs_tree_node_t") and
                 not (i.ops[0].is_const and i.ops[0].is_null)]
        rec = [c for c in f.calls() if prog.fn(c.callee or "", unit) is f]
        for site in links:
            n += 1
            ok = False
            for c in calls:
                for cond, outcome, br in f.guards_at(site.bb):
                    v = cond
                    pol = True
                    if v.is_inst and v.op == "icmp" and v.ops[1].is_const and v.ops[1].is_int and v.ops[1].sval == 0:
                        pol = v.pred == "ne"
                        v = v.ops[0]
                    while v.is_inst and v.op in ("zext", "trunc", "sext"):
                        v = v.ops[0]
                    if v is c and outcome != pol:      # the check itself answered "no"
                        ok = True
            inst = "%s:link" % f.name
            if ok:
                chk.ok("K1-loop", inst, site, "a node is linked under its parent only where %s() answered no" % checks[0].name)
            else:
                chk.violation("K1-loop", inst, site, "a node is linked into the tree without the ancestor check having answered no "
                              "on that path: a directory that contains (an ancestor of) itself makes the reader recurse forever")
        # the recursion must only visit nodes taken from the linked list (children / next), never a node straight from the reader
        for site in rec:
            n += 1
            node = site.ops[1] if len(site.ops) > 1 else None
            from_list = False
            if node is not None:
                for x in backward_slice(node):
                    if x.is_inst and x.op == "load":
                        p = strip_casts(x.ops[0])
                        if p.is_inst and p.op == "getelementptr" and p.field() and p.field()[1] in ("children", "next"):
                            from_list = True
            if from_list:
                chk.ok("K1-loop", "%s:recursion" % f.name, site, "recursion only descends into nodes that were linked (and therefore checked)")
            else:
                chk.violation("K1-loop", "%s:recursion" % f.name, site, "recursion into a node that did not come from the checked child list")
    if n == 0:
        chk.broke("no linking guarded by the ancestor check found in read_tree.c")


def _from_super(prog, f, v, depth=0):
    """the value derives from superblock fields or from the caller's own limits -- directly, or through a local that a
    static helper filled from them (`get_bounds(super, &lower, &upper)`)"""
    if any(s_.startswith("struct.sqfs_super_t") for (s_, _n) in fields_in_slice(v)) or any(x.is_arg for x in backward_slice(v)):
        return True
    if depth > 2:
        return False
    for x in [strip_casts(v)] + list(backward_slice(v)):
        if not (x.is_inst and x.op == "load"):
            continue
        al = strip_casts(x.ops[0])
        if not (al.is_inst and al.op == "alloca"):
            continue
        for c in f.uses.get(al, []):
            if c.op != "call" or not c.callee:
                continue
            h = prog.fn(c.callee, f.unit)
            if h is None or h.decl or h.unit is not f.unit:
                continue
            ks = [k for k, a in enumerate(c.ops) if strip_casts(a) is al]
            if not ks or ks[0] >= len(h.params):
                continue
            par = h.build().params[ks[0]]
            sts = [i for i in h.insts() if i.op == "store" and strip_casts(i.ops[1]) is par]
            if sts and all(_from_super(prog, h, i.ops[0], depth + 1) for i in sts):
                return True
    return False


def table_window_rule(chk, prog):
    """C05-c: table readers are given lower/upper limits that derive from superblock fields"""
    n = 0
    for f in prog.functions():
        for c in f.calls():
            nm = norm_callee(c.callee)
            if nm == "sqfs_read_table":
                lo, hi = c.ops[4], c.ops[5]
            elif nm == "sqfs_meta_reader_create":
                lo, hi = c.ops[2], c.ops[3]
            else:
                continue
            if not f.unit.src.startswith("lib/sqfs/src/"):
                continue
            n += 1
            chk.analysed(f)
            inst = "%s:%s@%d" % (f.name, nm, c.line)
            okhi = _from_super(prog, f, hi)
            oklo = _from_super(prog, f, lo)
            if okhi and oklo:
                chk.ok("K13-window", inst, c, "both limits derive from superblock table positions (or the caller's limits)")
            else:
                chk.violation("K13-window", inst, c, "a table/metadata reader is created with a constant limit: block positions "
                              "taken from the image are not confined to the table's region")
    m = prog.need_fn("sqfs_meta_reader_seek")
    chk.analysed(m)
    # the reads may sit in static helpers of the same unit: what guards the helper's call guards them
    cl, _e, _u = prog.reachable_from([m], stop=lambda g, u=m.unit: g.unit is not u)

    def guard_fields(g, bb, depth=0):
        flds = set()
        for cond, outcome, br in g.guards_at(bb):
            for (s_, nme) in fields_in_slice(cond):
                flds.add(nme)
        if g is not m and depth < 3:
            sites = [c for c in prog.callers_of(g) if c.fn in cl]
            if sites:
                common = None
                for c in sites:
                    gf = guard_fields(c.fn.build(), c.bb, depth + 1)
                    common = gf if common is None else (common & gf)
                flds |= common or set()
        return flds
    reads = [(g, c) for g in cl for c in g.build().calls() if slot_call(c) == ("struct.sqfs_file_t", "read_at")]
    ok = bool(reads)
    for (g, r) in reads:
        if not ({"start", "limit"} <= guard_fields(g, r.bb)):
            ok = False
    reads = [c for (_g, c) in reads]
    if ok:
        chk.ok("K13-window", "sqfs_meta_reader_seek:window", reads[0], "every read_at is preceded by tests against start and limit")
    else:
        chk.violation("K13-window", "sqfs_meta_reader_seek:window", reads[0] if reads else m,
                      "sqfs_meta_reader_seek reads a block without testing its position against both limits")
    return n


def super_sanity_rule(chk, prog):
    """C05-d: the superblock is only handed out after the sanity tests"""
    f = prog.need_fn("sqfs_super_read")
    chk.analysed(f)
    succ = success_points(f)
    need = {"magic": False, "version_major": False, "block_size": False, "block_log": False, "compression_id": False,
            "id_count": False}
    for b in succ:
        for cond, outcome, br in f.guards_at(b):
            for (s, n) in fields_in_slice(cond):
                if n in need:
                    need[n] = True
    for k, v in sorted(need.items()):
        if v:
            chk.ok("K1-super", k, f, "success is only reachable through a test of '%s'" % k)
        else:
            chk.violation("K1-super", k, f, "sqfs_super_read accepts a superblock without testing '%s'" % k)


def alloc_size_rule(chk, prog, files):
    """C05-e: allocation sizes computed from image fields are overflow-checked or go through alloc_flex/alloc_array"""
    n = 0
    for f in prog.functions():
        if f.unit.src not in files:
            continue
        for c in f.calls():
            nm = norm_callee(c.callee)
            if nm not in ("malloc", "calloc", "realloc"):
                continue
            size_args = [c.ops[0]] if nm == "malloc" else ([c.ops[0], c.ops[1]] if nm == "calloc" else [c.ops[1]])
            n += 1
            chk.analysed(f)
            inst = "%s:%s@%d" % (f.name, nm, c.line)
            bad = None
            for a in size_args:
                if a.is_const:
                    continue
                # plain add/mul on a wide value that came from the image without an overflow intrinsic
                for x in backward_slice(a):
                    if x.is_inst and x.op in ("mul", "shl") and not all(o.is_const for o in x.ops):
                        # multiplication of two non-constants, or of a 64-bit image value
                        nc = [o for o in x.ops if not o.is_const]
                        if len(nc) >= 2 and x.ty == "i64":
                            bad = x
            if bad is None:
                chk.ok("K13-alloc", inst, c, "size is constant, additive over narrow fields, or overflow-checked", nontrivial=False)
            else:
                chk.violation("K13-alloc", inst, bad, "allocation size is a product of two run-time values without an overflow "
                              "check (SZ_MUL_OV / alloc_array)")
    return n


def alloc_trunc_rule(chk, prog, files):
    """K13-trunc: a number that sizes an allocation (directly, or through the member that is later taken for its capacity)
    is not cut down to 32 bits on the way unless it is known to fit: `u32 bytes = count * sizeof(x)` with a count from
    the image wraps, the buffer is too small for the index computed in full width elsewhere"""
    from ..bounds2 import Bounder, Cap
    from ..bounds import ALLOC_FNS
    n = 0
    for f in prog.functions():
        if f.decl or f.unit.src not in files:
            continue
        f.build()
        for c in f.calls():
            nm = norm_callee(c.callee)
            if nm not in ALLOC_FNS:
                continue
            sizes = [c.ops[k] for k in ALLOC_FNS[nm] if k < len(c.ops)]
            tr = []

            def wide_slice(v):
                """backward slice that goes from a load of an object member to what this function stores in that member"""
                out, seen, st_ = [], set(), [v]
                while st_ and len(out) < 400:
                    x = st_.pop()
                    if id(x) in seen:
                        continue
                    seen.add(id(x))
                    out.append(x)
                    if not x.is_inst:
                        continue
                    if x.op == "load":
                        q = strip_casts(x.ops[0])
                        if q.is_inst and q.op == "getelementptr" and q.field():
                            for j in f.insts():
                                if j.op == "store" and strip_casts(j.ops[1]).is_inst and strip_casts(j.ops[1]).op == "getelementptr" and \
                                        strip_casts(j.ops[1]).field() == q.field():
                                    st_.append(j.ops[0])
                        continue
                    if x.op not in ("call", "phi") or x.op == "phi":
                        st_.extend(o for o in x.ops if not o.is_const)
                return out
            for a in sizes:
                for x in wide_slice(a):
                    if x.is_inst and x.op == "trunc" and x.ty == "i32" and (getattr(x.ops[0], "ty", "") == "i64") and \
                            any(y.is_inst and y.op in ("mul", "shl", "add") for y in [x.ops[0]] + list(backward_slice(x.ops[0], phi_control=False, limit=20))):
                        tr.append(x)
            for x in {id(t): t for t in tr}.values():
                n += 1
                chk.analysed(f)
                inst = "%s:%s@%d:trunc@%d" % (f.name, nm, c.line, x.line)
                if Bounder(prog, f).bounded(x.ops[0], x, Cap(const=0xFFFFFFFF, desc="32 bits")):
                    chk.ok("K13-trunc", inst, x, "the value fits 32 bits where it is narrowed")
                else:
                    chk.violation("K13-trunc", inst, x, "a size that an allocation is computed from is narrowed to 32 bits without being "
                                  "known to fit: for large counts from the image the buffer is smaller than the index range used "
                                  "elsewhere")
    return n


def payload_walk_rule(chk, prog):
    """K6-payload: the variable part of an inode (block sizes, link target, directory index) lies behind the inode in one
    allocation and `payload_bytes_used` / `payload_bytes_available` say how much of it there is.  A copy out of it at a
    variable offset is dominated by a comparison of that offset with one of the two: the walk over the directory index is
    stopped by the size of the blob, not by a count the image supplies."""
    n = 0
    for f in prog.functions():
        if f.decl or "/test/" in f.unit.src or not f.unit.src.startswith(("lib/sqfs/src/", "lib/common/src/", "bin/rdsquashfs/",
                                                                           "bin/sqfs2tar/", "bin/sqfsdiff/")):
            continue
        f.build()
        for c in f.calls():
            if norm_callee(c.callee) not in ("memcpy", "memmove") or len(c.ops) < 3:
                continue
            sl = backward_slice(c.ops[1], phi_control=False)
            if not any(x.is_inst and x.op == "getelementptr" and x.field() and x.field()[1] == "extra" and
                       "sqfs_inode_generic_t" in x.field()[0] for x in sl):
                continue
            idx = []
            for x in sl:
                if x.is_inst and x.op == "getelementptr" and not x.field():
                    idx += [el[1] for el in x.x["gep"] if el[0] in ("*", "[]") and not el[1].is_const]
            if not idx:
                continue
            n += 1
            chk.analysed(f)
            inst = "%s:memcpy@%d" % (f.name, c.line)
            vals = set()
            for v in idx:
                for y in backward_slice(v, phi_control=False):
                    vals.add(id(y))
            ok = False
            for cond, outcome, br in f.guards_at(c.bb):
                if not (cond.is_inst and cond.op == "icmp" and outcome in (True, False)):
                    continue
                sides = []
                for o in cond.ops:
                    so = backward_slice(o, phi_control=False)
                    is_len = any(y.is_inst and y.op == "load" and strip_casts(y.ops[0]).is_inst and
                                 strip_casts(y.ops[0]).op == "getelementptr" and strip_casts(y.ops[0]).field() and
                                 strip_casts(y.ops[0]).field()[1] in ("payload_bytes_used", "payload_bytes_available") for y in so)
                    is_off = any(id(y) in vals for y in so if not y.is_const)
                    sides.append((is_len, is_off))
                if (sides[0][1] and sides[1][0] and not sides[0][0]):
                    ok = ok or (cond.pred in ("ult", "ule", "slt", "sle") and outcome) or (cond.pred in ("uge", "ugt", "sge", "sgt") and not outcome)
                if (sides[1][1] and sides[0][0] and not sides[1][0]):
                    ok = ok or (cond.pred in ("ugt", "uge", "sgt", "sge") and outcome) or (cond.pred in ("ule", "ult", "sle", "slt") and not outcome)
            if ok:
                chk.ok("K6-payload", inst, c, "the offset into the inode's payload was compared with the number of payload bytes")
            else:
                chk.violation("K6-payload", inst, c, "bytes are copied out of the inode's payload at a variable offset that no dominating "
                              "test compares with payload_bytes_used / payload_bytes_available: a count or a size the image supplies "
                              "moves the read behind the allocation")
    return n


def double_release_rule(chk, prog):
    """K8-twice: a function that releases what hangs off its object on its own failure path ("fails closed": it calls the
    object's release function before it answers non-zero) leaves nothing for the caller to release.  From the failure edge
    of a call of such a function, no path reaches a call of the release function with the same object."""
    from ..errflow import ret_sources, failure_edges
    n = 0
    # release functions: static, one pointer parameter, void, drop / free members of it
    def releases(d):
        if d.decl or len(d.params) != 1:
            return False
        d.build()
        k = 0
        for c in d.calls():
            if norm_callee(c.callee) in ("sqfs_drop", "free", "sqfs_free", "sqfs_dir_tree_destroy") and c.ops:
                v = strip_casts(c.ops[0])
                if v.is_inst and v.op == "load":
                    q = strip_casts(v.ops[0])
                    if q.is_inst and q.op == "getelementptr" and q.field() and strip_casts(q.ops[0]) is d.params[0]:
                        k += 1
        return k >= 2
    for g in prog.functions():
        if g.decl or "/test/" in g.unit.src or not g.unit.src.startswith("bin/"):
            continue
        g.build()
        closed = None
        for c in g.calls():
            d = prog.fn(c.callee, g.unit) if c.callee else None
            if d is None or d is g or not releases(d) or not c.ops:
                continue
            k = next((i for i, a in enumerate(g.params) if a is strip_casts(c.ops[0])), None)
            if k is None:
                continue
            # the release sits on a way to a non-zero answer only
            rb = {b for (v, b) in ret_sources(g) if strip_casts(v).is_const and strip_casts(v).is_int and strip_casts(v).sval == 0}
            seen, work = set(), list(c.bb.succs)
            while work:
                b = work.pop()
                if b in seen:
                    continue
                seen.add(b)
                work.extend(b.succs)
            if not (rb & (seen | {c.bb})):
                closed = (d, k)
        if closed is None:
            continue
        d, k = closed
        for c in prog.callers_of(g):
            f = c.fn
            f.build()
            if k >= len(c.ops):
                continue
            obj = strip_casts(c.ops[k])
            n += 1
            chk.analysed(f)
            inst = "%s:%s@%d" % (f.name, g.name, c.line)
            fails = [s_ for (s_, _why) in failure_edges(f, c)]
            if not fails:
                chk.ok("K8-twice", inst, c, "the result is not branched on here", nontrivial=False)
                continue
            seen, work, bad = set(), list(fails), None
            while work and bad is None:
                b = work.pop()
                if b in seen:
                    continue
                seen.add(b)
                for i in b.insts:
                    if i.op == "call" and i.callee and prog.fn(i.callee, f.unit) is d and i.ops and _same_obj(strip_casts(i.ops[0]), obj):
                        bad = i
                        break
                work.extend(b.succs)
            if bad is None:
                chk.ok("K8-twice", inst, c, "after %s failed (and released the object itself) nothing releases it again" % g.name)
            else:
                chk.violation("K8-twice", inst, bad, "%s releases the object with %s before it reports failure; from that failure a "
                              "path reaches %s on the same object again: every member is dropped twice (use after free, double "
                              "free)" % (g.name, d.name, d.name))
    return n


def _same_obj(a, b):
    if a is b:
        return True
    if a.is_inst and b.is_inst and a.op == b.op == "getelementptr":
        return a.x.get("gep") is not None and b.x.get("gep") is not None and \
            [(e[0], e[1] if e[0] not in ("*", "[]") else (e[1].sval if e[1].is_const else id(e[1]))) for e in a.x["gep"]] == \
            [(e[0], e[1] if e[0] not in ("*", "[]") else (e[1].sval if e[1].is_const else id(e[1]))) for e in b.x["gep"]] and \
            _same_obj(strip_casts(a.ops[0]), strip_casts(b.ops[0]))
    return False


def run(chk):
    chk.explanation = (
        "K6 bounded-sink rule over every unit anchored by the property (all readers, decompressors, tree readers, "
        "rdsquashfs/sqfs2tar/sqfsdiff sources): for each memcpy/memmove/memset/strcpy, read through sqfs_file_t.read_at, "
        "compressor output and sqfs_meta_reader_read / sqfs_istream_read, the length must be derivably bounded by the "
        "capacity of the destination: constants against static object sizes, linear arithmetic against the "
        "allocation made for the fill (offset + length <= size, with overflow intrinsics), provenance-based bounds "
        "(guards, clamps, masks, do_block contract, memory-carried lengths, cursor loops, interprocedural parameter "
        "bounds) against buffers whose capacity is fixed at their allocation sites. Plus: directory-loop check on the "
        "recursion path, table windows from superblock fields, superblock sanity tests dominate success, "
        "allocation-size arithmetic. Out-of-bounds reads through string functions, termination of every loop and "
        "the codec libraries are not decided. Further rules: K8-dangling (a freed pointer is not left in caller-visible memory on any path to return), the growth prover inside K6 (capacity invariant of re-allocated buffers plus per-edge linear proof), K1-double (a value doubled until large enough is non-zero on loop entry). K6-fill (sa/slack.py): the metadata reader's cursor stays within the valid part of its block buffer at every store, every copy out of it is at most data_used - offset long; K6-outcontract: a do_block implementation answers a size decoded from its input only where it compared it with outsize; flexible members are sized by the allocation sites that can be behind the member that designates them. K5-nullok (sa/nullok.py, a contradiction rule): where a function answers success on the edge on which a pointer member of its object is NULL, nothing behind the caller's success edge hands the object to a function that uses that member without a test. K6-payload: a copy out of an inode's payload at a variable offset is dominated by a comparison of the offset with payload_bytes_used / payload_bytes_available. K8-twice: after a function that releases its object itself on failure, the caller's failure path does not release the object again. K13-trunc: a byte count that sizes a window or an allocation for a table is not narrowed below the width it was computed in.")
    chk.assumptions = ["a pointer to struct T points to at least sizeof(T) bytes",
                       "SZ_ADD_OV/SZ_MUL_OV results are used only where the overflow bit was tested (C05-e is partial)"]
    prog = load_program("all")
    files = anchored_files()
    n = run_k6(chk, prog, files, EXCEPTIONS, "K6")
    run_k6_src(chk, prog, files, SRC_EXCEPTIONS, "K6-src")
    chk.floor("K6-src", 6)
    loop_guard_rule(chk, prog)
    descent_rule(chk, prog)
    table_window_rule(chk, prog)
    super_sanity_rule(chk, prog)
    alloc_size_rule(chk, prog, files)
    # a table the image leaves out: no reader answers "fine" without it and then uses it
    from ..nullok import run_nullok
    seen_n = set()
    for tool in ("rdsquashfs", "sqfs2tar", "sqfsdiff"):
        run_nullok(chk, load_program(tool), "K5-nullok",
                   lambda src: src.startswith(("lib/sqfs/", "lib/common/", "bin/rdsquashfs/", "bin/sqfs2tar/", "bin/sqfsdiff/"))
                   and "/test/" not in src, seen_n)
    chk.floor("K5-nullok", 10)
    payload_walk_rule(chk, prog)
    chk.floor("K6-payload", 3)
    double_release_rule(chk, prog)
    chk.floor("K8-twice", 2)
    from ..progress import run_doubling
    run_doubling(chk, prog, "K1-double", lambda src: src.startswith(("lib/sqfs/", "lib/common/", "lib/util/")) and "/test/" not in src)
    chk.floor("K1-double", 1)
    from ..dangling import run_dangling
    run_dangling(chk, prog, "K8-dangling",
                 lambda src: src.startswith(("lib/sqfs/", "lib/common/", "lib/util/", "bin/rdsquashfs/", "bin/sqfs2tar/", "bin/sqfsdiff/"))
                 and "/test/" not in src, DANGLING_EXCEPTIONS)
    chk.floor("K6", 100)
    chk.floor("K1-loop", 3)
    chk.floor("K13-window", 6)
    chk.floor("K1-super", 6)
    # the metadata reader's cursor: offset <= data_used <= sizeof(data) at every store, every copy out of data + offset is
    # at most data_used - offset long (sa/slack.py)
    alloc_trunc_rule(chk, load_program("rdsquashfs"), files)
    out_contract_rule(chk, load_program("rdsquashfs"))
    chk.floor("K6-outcontract", 1)
    from ..slack import run_fill
    run_fill(chk, load_program("rdsquashfs"), only_structs={"struct.sqfs_meta_reader_t"})
    chk.floor("K6-fill", 4)
    chk.floor("K13-alloc", 15)
    chk.floor("K8-dangling", 30)
    controls(chk)


def controls(chk):
    from ..controls import control_program
    from ..report import Check
    prog = control_program("c05_controls.c")
    sub = Check("C05-control", chk.tier)
    run_k6(sub, prog, {"c05_controls.c"}, {}, "K6")
    got = {(o["rule"], o["function"]) for o in sub.obl if o["verdict"] == "VIOLATED"}
    chk.control("K6", ("K6", "ctl_unchecked") in got, "on-disk size used as read length without comparison to the buffer size")
    chk.control("K6-field", ("K6", "ctl_wrong_bound") in got, "length compared with an unrelated quantity")
    chk.control("silent-on-good", not any(fn in ("ctl_checked", "ctl_alloc_fill", "ctl_clamped", "ctl_grow_good") for (_r, fn) in got),
                "bounded sinks must not be reported")
    chk.control("K6-offset", ("K6", "ctl_offset_ignored") in got and ("K6", "ctl_offset_wrap") in got,
                "offset into a field buffer: length alone compared / 32 bit sum that wraps")
    chk.control("K6-offset/silent", ("K6", "ctl_offset_ok") not in got, "offset <= C and length <= C - offset must not be reported")
    sub3 = Check("C05-control", chk.tier)
    run_k6_src(sub3, prog, {"c05_controls.c"}, {}, "K6-src")
    got3 = {(o["rule"], o["function"]) for o in sub3.obl if o["verdict"] == "VIOLATED"}
    chk.control("K6-src", ("K6-src", "ctl_src_wrap") in got3, "copy out of a field buffer guarded by a 32 bit sum that wraps")
    chk.control("K6-src/silent", ("K6-src", "ctl_src_ok") not in got3 and ("K6-src", "ctl_src_sum64") not in got3, "guarded copy out of a field buffer must not be reported")
    chk.control("K6-memver", ("K6", "ctl_stale_guard") in got, "a field is compared, rewritten by a callee, then used as the length")
    chk.control("K6-memver/silent", ("K6", "ctl_fresh_guard") not in got, "a call in between that writes another field must not matter")
    sub4 = Check("C05-control", chk.tier)
    alloc_trunc_rule(sub4, prog, {"c05_controls.c"})
    got4 = {(o["rule"], o["function"]) for o in sub4.obl if o["verdict"] == "VIOLATED"}
    chk.control("K13-trunc", ("K13-trunc", "ctl_trunc_count") in got4, "byte count of a table narrowed to 32 bits before it sizes the allocation")
    chk.control("K13-trunc/silent", ("K13-trunc", "ctl_wide_count") not in got4, "the same in full width must not be reported")
    chk.control("K6-growth", ("K6", "ctl_grow_bad") in got, "buffer grown until the new entry alone fits, ignoring what is stored already")
    from ..dangling import run_dangling
    sub2 = Check("C05-control", chk.tier)
    run_dangling(sub2, prog, "K8-dangling", lambda src: True)
    got2 = {(o["rule"], o["function"]) for o in sub2.obl if o["verdict"] == "VIOLATED"}
    chk.control("K8-dangling", ("K8-dangling", "ctl_dangling") in got2, "freed out-parameter left in place on the error return")
    chk.control("K8-dangling/silent", ("K8-dangling", "ctl_not_dangling") not in got2, "cleared out-parameter must not be reported")
