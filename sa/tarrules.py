"""Truncated-input rules for the archive layer (shared by C12, C13, C04/C07):
T1  the result of an inner stream's get_buffered_data is propagated (returned, stored, passed on) only where it is
    known negative: a positive result (end of input) while the archive layer still expects bytes is an error
T2  every sqfs_istream_read(fp, buf, N) in the archive layer is followed by a test of the returned count against N"""
from .ir import strip_casts, norm_callee
from .effects import slot_call
from .util import backward_slice, const_int


def _facts_imply_negative(facts):
    """facts: (icmp predicate against 0, outcome) about one value"""
    neg = nonpos = nonzero = False
    for pred, outcome in facts:
        if (pred == "slt" and outcome) or (pred == "sge" and not outcome):
            neg = True
        if (pred == "sle" and outcome) or (pred == "sgt" and not outcome):
            nonpos = True
        if (pred == "ne" and outcome) or (pred == "eq" and not outcome):
            nonzero = True
    return neg or (nonpos and nonzero)


def _zero_test(cond, value):
    if cond.is_inst and cond.op == "icmp" and strip_casts(cond.ops[0]) is value and cond.ops[1].is_const and \
            cond.ops[1].is_int and cond.ops[1].sval == 0:
        return cond.pred
    return None


def _known_negative(f, value, block, extra=()):
    facts = list(extra)
    for cond, outcome, br in f.guards_at(block):
        p = _zero_test(cond, value)
        if p:
            facts.append((p, outcome))
    return _facts_imply_negative(facts)


def t1_rule(chk, prog, unit_prefix="lib/tar/src/"):
    n = 0
    for f in prog.functions():
        if not f.unit.src.startswith(unit_prefix):
            continue
        for c in f.calls():
            if slot_call(c) != ("struct.sqfs_istream_t", "get_buffered_data"):
                continue
            n += 1
            chk.analysed(f)
            inst = "%s:get_buffered_data@%d" % (f.name, n)
            bad = None
            # forward through phis
            seen, stack = set(), [(c, ())]
            while stack and bad is None:
                v, extra = stack.pop()
                if (id(v), extra) in seen:
                    continue
                seen.add((id(v), extra))
                for u in f.uses.get(v, []):
                    if u.op in ("icmp",):
                        continue
                    if u.op in ("phi", "select", "sext", "zext", "trunc"):
                        # a phi merges: judge at the incoming edge
                        if u.op == "phi":
                            for val, pred in zip(u.ops, u.x["inc"]):
                                if val is v and not _known_negative(f, c, pred, extra):
                                    # positive may flow on: follow the phi's uses
                                    stack.append((u, extra))
                        elif u.op == "select":
                            # `ret > 0 ? X : ret`: the arm that carries the result is taken under the test's outcome
                            p = _zero_test(u.ops[0], c)
                            for k in (1, 2):
                                if u.ops[k] is v:
                                    stack.append((u, extra + (((p, k == 1),) if p else ())))
                        else:
                            stack.append((u, extra))
                        continue
                    if u.op in ("ret", "store", "call"):
                        if not _known_negative(f, c, u.bb, extra):
                            bad = u
            if bad is None:
                chk.ok("T1-eof", inst, c, "the inner stream's result is only propagated where it is negative; end of input "
                       "inside a member takes the archive layer's own error path")
            else:
                chk.violation("T1-eof", inst, bad, "the result of the inner stream's get_buffered_data is propagated where it "
                              "may be positive (end of input): a truncated archive member is reported as a normal end of "
                              "file and the tool exits 0 with a shortened file")
    return n


def t2_rule(chk, prog, unit_prefix="lib/tar/src/"):
    n = 0
    for f in prog.functions():
        if not f.unit.src.startswith(unit_prefix):
            continue
        for c in f.calls("sqfs_istream_read"):
            n += 1
            chk.analysed(f)
            inst = "%s:sqfs_istream_read@%d" % (f.name, c.line)
            size = c.ops[2]
            ok = False
            seen, stack = set(), [c]
            while stack:
                v = stack.pop()
                if id(v) in seen:
                    continue
                seen.add(id(v))
                for u in f.uses.get(v, []):
                    if u.op in ("sext", "zext", "trunc"):
                        stack.append(u)
                    elif u.op == "icmp" and u.pred in ("ult", "slt", "uge", "sge", "eq", "ne"):
                        other = u.ops[1] if u.ops[0] is v else u.ops[0]
                        same = (other is size) or (other.is_const and size.is_const and other.is_int and size.is_int and
                                                   other.uval == size.uval)
                        if not same and not other.is_const and not size.is_const:
                            same = strip_casts(other) is strip_casts(size)
                        if same and any(b.op == "br" for b in f.uses.get(u, [])):
                            ok = True
            if ok:
                chk.ok("T2-short", inst, c, "the returned count is compared with the requested size")
            else:
                chk.violation("T2-short", inst, c, "a short read from the archive stream is not detected: the record is "
                              "decoded from a partially filled buffer")
    return n
