"""Anchor functions found by what they do, not by what they are called: a rename or a helper extraction must not
turn a check into 'analysis broken'.  Each finder falls back to the historical name only if the structural search finds
nothing."""
from .ir import strip_casts, norm_callee, ExternFn
from .effects import slot_call


def _fld(p):
    p = strip_casts(p)
    if p.is_inst and p.op == "getelementptr":
        fl = p.field()
        return fl[1] if fl else None
    return None


def _by_name(prog, name):
    return [g for g in prog.functions() if g.name == name and not g.decl]


def worker_entry(prog):
    """functions handed to thread_pool_create* as the work function"""
    ent = []
    for f in prog.functions():
        for c in f.calls():
            if norm_callee(c.callee) in ("thread_pool_create", "thread_pool_create_serial"):
                for a in c.ops:
                    for t in prog.fn_targets(a, f.unit):
                        if not isinstance(t, ExternFn) and t not in ent:
                            ent.append(t.build())
    return ent or _by_name(prog, "process_block")


def submitter(prog):
    """the block processor function that hands a block to the pool (slot thread_pool_t.submit)"""
    out = [f.build() for f in prog.functions() if not f.decl and f.unit.src.startswith("lib/sqfs/src/block_processor/") and
           any(slot_call(c) == ("struct.thread_pool_t", "submit") for c in f.calls())]
    return out or _by_name(prog, "enqueue_block")


def fragment_finisher(prog):
    """the function that looks a finished fragment up in the fragment hash table"""
    out = [f.build() for f in prog.functions() if not f.decl and f.unit.src.startswith("lib/sqfs/src/block_processor/") and
           any(norm_callee(c.callee) in ("hash_table_search_pre_hashed", "hash_table_search") for c in f.calls())]
    return out or _by_name(prog, "process_completed_fragment")


def block_run_dedup(prog):
    """the block writer function that truncates the output after a duplicate run"""
    out = [f.build() for f in prog.functions() if not f.decl and f.unit.src == "lib/sqfs/src/block_writer.c" and
           any(slot_call(c) == ("struct.sqfs_file_t", "truncate") for c in f.calls())]
    return out or _by_name(prog, "deduplicate_blocks")


def fragment_equals(prog):
    """the equality callback of the fragment hash table (created in the block processor)"""
    out = []
    for f in prog.functions():
        if f.decl or not f.unit.src.startswith("lib/sqfs/src/block_processor/"):
            continue
        for c in f.calls():
            if norm_callee(c.callee) == "hash_table_create":
                for a in c.ops:
                    for t in prog.fn_targets(a, f.unit):
                        if not isinstance(t, ExternFn) and t not in out:
                            out.append(t.build())
    return out or _by_name(prog, "chunk_info_equals")


def sparse_classifier(prog):
    """the function of the tar iterator that reads the extents of the sparse map (sparse_map_t.count)"""
    out = []
    for f in prog.functions():
        if f.decl or f.unit.src != "lib/tar/src/iterator.c":
            continue
        f.build()
        if any(i.op == "load" and _fld(i.ops[0]) == "count" and "sparse_map" in ((strip_casts(i.ops[0]).field() or ("",))[0]) for i in f.insts()):
            out.append(f)
    return out or _by_name(prog, "is_sparse_region")


def sort_flag_decoder(prog, cstr):
    """the sort file's flag decoder: compares a token with the keyword 'dont_compress'"""
    out = []
    for f in prog.functions():
        if f.decl or not f.unit.src.endswith("bin/gensquashfs/src/sort_by_file.c"):
            continue
        f.build()
        for c in f.calls():
            if norm_callee(c.callee) == "strcmp" and any(cstr(f, a) == "dont_compress" for a in c.ops):
                if f not in out:
                    out.append(f)
    return out or _by_name(prog, "decode_flags")


def export_adder(prog):
    """the dir writer function that maintains export_tbl.used"""
    out = []
    for f in prog.functions():
        if f.decl or f.unit.src != "lib/sqfs/src/dir_writer.c" or len(f.params) < 3:
            continue
        f.build()
        if any(i.op == "store" and _fld(i.ops[1]) == "used" for i in f.insts()):
            out.append(f)
    return out or _by_name(prog, "add_export_table_entry")
