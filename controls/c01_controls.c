/* positive controls for C01 rules whose instance count on the tree is zero */
#include <stddef.h>
int ctl_signed_bytes(const char *a, const char *b);
int ctl_unsigned_bytes(const char *a, const char *b);

int ctl_signed_bytes(const char *a, const char *b)
{
	if (a[0] < b[0])		/* plain char: signed here */
		return -1;
	return a[0] > b[0];
}

int ctl_unsigned_bytes(const char *a, const char *b)
{
	const unsigned char *x = (const unsigned char *)a, *y = (const unsigned char *)b;

	if (x[0] < y[0])
		return -1;
	return x[0] > y[0];
}
