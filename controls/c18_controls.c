/* positive controls for C18 */
#include <stdbool.h>
#include <string.h>

int canonicalize_name(char *filename);
bool is_filename_sane(const char *name, bool check_os_specific);
int ctl_ignores(char *s);

int canonicalize_name(char *filename)
{
	char *dst = filename, *src = filename;
	while (*src == '/')
		++src;
	while (*src != '\0')
		*(dst++) = *(src++);
	*dst = '\0';
	return 0;
}

bool is_filename_sane(const char *name, bool check_os_specific)
{
	(void)check_os_specific;
	if (strcmp(name, ".") == 0 || strcmp(name, "..") == 0)
		return false;
	while (*name != '\0') {
		if (*name == '/' || *name == '\\')	/* extra character class */
			return false;
		++name;
	}
	return true;
}

int ctl_ignores(char *s)
{
	canonicalize_name(s);		/* verdict dropped */
	return (int)strlen(s);
}
