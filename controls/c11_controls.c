/* positive / negative controls for the C11 rules (A3-source, A3-pipeline) and the comparator evaluation (K14-cmp) */
#include <stddef.h>
#include <string.h>
#include <stdlib.h>
#include <dirent.h>
#include <errno.h>

typedef struct sqfs_dir_iterator_t sqfs_dir_iterator_t;
int sqfs_dir_iterator_create_native(sqfs_dir_iterator_t **out, const char *path, unsigned int flags);
int sqfs_dir_iterator_create_recursive(sqfs_dir_iterator_t **out, sqfs_dir_iterator_t *base);
int sqfs_hard_link_filter_create(sqfs_dir_iterator_t **out, sqfs_dir_iterator_t *base);
void *sqfs_dir_entry_create(const char *name, unsigned short mode, unsigned int flags);

struct ctl_it { DIR *dir; struct dirent *ent; char **names; size_t count; };

/* unordered: the dirent is kept and handed on */
int ctl_unsorted_next(struct ctl_it *it, void **out)
{
	it->ent = readdir(it->dir);
	if (it->ent == NULL)
		return 1;
	*out = sqfs_dir_entry_create(it->ent->d_name, 0, 0);
	return 0;
}

/* order-sensitive stage over the host source */
int ctl_pipeline(sqfs_dir_iterator_t **out, const char *path)
{
	sqfs_dir_iterator_t *dir, *rec;
	int ret;

	ret = sqfs_dir_iterator_create_native(&dir, path, 0);
	if (ret)
		return ret;
	ret = sqfs_dir_iterator_create_recursive(&rec, dir);
	if (ret)
		return ret;
	return sqfs_hard_link_filter_create(out, rec);
}

/* comparators */
struct key { unsigned long dev, ino; };

int ctl_cmp_good(const void *ctx, const void *l, const void *r)
{
	const struct key *a = l, *b = r;
	(void)ctx;
	if (a->dev != b->dev)
		return a->dev < b->dev ? -1 : 1;
	return a->ino < b->ino ? -1 : (a->ino > b->ino ? 1 : 0);
}

int ctl_cmp_asym(const void *ctx, const void *l, const void *r)
{
	const struct key *a = l, *b = r;
	(void)ctx;
	if (a->ino != b->ino)
		return a->ino < b->ino ? -1 : 1;
	return a->dev > b->dev ? 1 : (a->dev > b->dev ? -1 : 0);
}

int ctl_cmp_ignores(const void *ctx, const void *l, const void *r)
{
	const struct key *a = l, *b = r;
	(void)ctx;
	if (a->dev != b->dev)
		return a->dev < b->dev ? -1 : 1;
	return (a->ino == b->ino) ? 0 : 0;
}

struct prio { long long priority; };

int ctl_cmp_trunc(const void *ctx, const void *l, const void *r)
{
	const struct prio *a = l, *b = r;
	(void)ctx;
	return a->priority - b->priority;
}
