/* positive controls for K4 (C09): same struct/field names as the real pool */
#include <pthread.h>
#include <stddef.h>

typedef struct work_item_t { struct work_item_t *next; size_t ticket_number; void *data; } work_item_t;

typedef struct thread_pool_impl_t {
	pthread_mutex_t mtx;
	pthread_cond_t queue_cond;
	pthread_cond_t done_cond;
	size_t next_ticket;
	size_t next_dequeue_ticket;
	work_item_t *queue;
	work_item_t *queue_last;
	work_item_t *done;
	int status;
} thread_pool_impl_t;

int ctl_peek(thread_pool_impl_t *pool);
void ctl_leak(thread_pool_impl_t *pool);
work_item_t *ctl_wait_noflag(thread_pool_impl_t *pool);
void ctl_post_nosignal(thread_pool_impl_t *pool, work_item_t *it);
work_item_t *ctl_good_wait(thread_pool_impl_t *pool);
void ctl_good_post(thread_pool_impl_t *pool, work_item_t *it);

int ctl_peek(thread_pool_impl_t *pool)
{
	return pool->status;			/* L1: no lock */
}

void ctl_leak(thread_pool_impl_t *pool)
{
	pthread_mutex_lock(&pool->mtx);
	if (pool->status != 0)
		return;				/* L3: returns with the mutex held */
	pool->status = 1;
	pthread_cond_broadcast(&pool->queue_cond);
	pthread_cond_broadcast(&pool->done_cond);
	pthread_mutex_unlock(&pool->mtx);
}

work_item_t *ctl_wait_noflag(thread_pool_impl_t *pool)
{
	work_item_t *it;
	pthread_mutex_lock(&pool->mtx);
	while (pool->done == NULL)		/* L6: status not part of the predicate */
		pthread_cond_wait(&pool->done_cond, &pool->mtx);
	it = pool->done;
	pool->done = it->next;
	pthread_mutex_unlock(&pool->mtx);
	return it;
}

void ctl_post_nosignal(thread_pool_impl_t *pool, work_item_t *it)
{
	pthread_mutex_lock(&pool->mtx);
	it->next = pool->queue;
	pool->queue = it;			/* L5: nobody is woken */
	pthread_mutex_unlock(&pool->mtx);
}

work_item_t *ctl_good_wait(thread_pool_impl_t *pool)
{
	work_item_t *it = NULL;
	pthread_mutex_lock(&pool->mtx);
	while (pool->queue == NULL && pool->status == 0)
		pthread_cond_wait(&pool->queue_cond, &pool->mtx);
	if (pool->status == 0) {
		it = pool->queue;
		pool->queue = it->next;
	}
	pthread_mutex_unlock(&pool->mtx);
	return it;
}

void ctl_good_post(thread_pool_impl_t *pool, work_item_t *it)
{
	pthread_mutex_lock(&pool->mtx);
	it->next = pool->done;
	pool->done = it;
	pthread_cond_broadcast(&pool->done_cond);
	pthread_mutex_unlock(&pool->mtx);
}
