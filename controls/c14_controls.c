/* positive controls for K11/K2 (C14): finish writes a table after the final superblock;
 * a stranger commits the superblock */
#include <stddef.h>

typedef struct sqfs_file_t {
	int (*read_at)(struct sqfs_file_t *f, unsigned long off, void *buf, size_t n);
	int (*write_at)(struct sqfs_file_t *f, unsigned long off, const void *buf, size_t n);
	unsigned long (*get_size)(const struct sqfs_file_t *f);
	int (*truncate)(struct sqfs_file_t *f, unsigned long sz);
} sqfs_file_t;

typedef struct sqfs_super_t { unsigned long bytes_used; unsigned long id_table_start; unsigned short id_count; } sqfs_super_t;
typedef struct { sqfs_super_t super; sqfs_file_t *outfile; } sqfs_writer_t;

int sqfs_super_write(const sqfs_super_t *super, sqfs_file_t *file);
int write_table(sqfs_file_t *file, sqfs_super_t *super);
int sqfs_writer_finish(sqfs_writer_t *sqfs);
int stranger(sqfs_writer_t *sqfs);

int sqfs_super_write(const sqfs_super_t *super, sqfs_file_t *file)
{
	return file->write_at(file, 0, super, sizeof(*super));
}

int write_table(sqfs_file_t *file, sqfs_super_t *super)
{
	super->id_table_start = file->get_size(file);
	return file->write_at(file, super->id_table_start, "x", 1);
}

int sqfs_writer_finish(sqfs_writer_t *sqfs)
{
	sqfs->super.bytes_used = sqfs->outfile->get_size(sqfs->outfile);
	if (sqfs_super_write(&sqfs->super, sqfs->outfile))
		return -1;
	if (write_table(sqfs->outfile, &sqfs->super))	/* after the commit */
		return -1;
	return 0;
}

int stranger(sqfs_writer_t *sqfs)
{
	return sqfs_super_write(&sqfs->super, sqfs->outfile);
}

/* K2-nosignal: a packer that handles termination signals */
#include <signal.h>
static volatile sig_atomic_t ctl_stop;
static void ctl_on_signal(int s) { (void)s; ctl_stop = 1; }
int ctl_installs_handler(void);
int ctl_installs_handler(void)
{
	struct sigaction sa = { .sa_handler = ctl_on_signal };
	return sigaction(SIGTERM, &sa, NULL);
}
