/* positive controls for K9 (C10) */
#include <stdlib.h>
#include <string.h>

typedef struct ctl_meta_t {
	unsigned long block_offset;
	size_t data_used;
	size_t offset;
	unsigned char data[64];
} ctl_meta_t;

typedef struct ctl_data_t {
	unsigned char *data_block;
	unsigned long current_block;
} ctl_data_t;

extern int ext_read(unsigned long off, void *buf, size_t n);

int ctl_seek_stale(ctl_meta_t *m, unsigned long blk, size_t off);
int ctl_seek_good(ctl_meta_t *m, unsigned long blk, size_t off);
int ctl_precache_bad(ctl_data_t *d, unsigned long loc);
int ctl_precache_good(ctl_data_t *d, unsigned long loc);
int ctl_precache_nohit(ctl_data_t *d, unsigned long loc);

int ctl_seek_stale(ctl_meta_t *m, unsigned long blk, size_t off)
{
	int err;
	if (blk == m->block_offset) {
		m->offset = off;
		return 0;
	}
	err = ext_read(blk, m->data, sizeof(m->data));
	if (err)
		return err;		/* data overwritten, tag still the old block */
	m->data_used = sizeof(m->data);
	m->block_offset = blk;
	m->offset = off;
	return 0;
}

int ctl_seek_good(ctl_meta_t *m, unsigned long blk, size_t off)
{
	int err;
	if (blk == m->block_offset) {
		m->offset = off;
		return 0;
	}
	m->block_offset = ~0UL;
	err = ext_read(blk, m->data, sizeof(m->data));
	if (err)
		return err;
	m->data_used = sizeof(m->data);
	m->block_offset = blk;
	m->offset = off;
	return 0;
}

static int load_bad(unsigned long loc, unsigned char **out)
{
	*out = malloc(64);
	if (*out == NULL)
		return -1;
	if (ext_read(loc, *out, 64)) {
		free(*out);
		return -2;		/* *out dangling on failure */
	}
	return 0;
}

static int load_good(unsigned long loc, unsigned char **out)
{
	*out = malloc(64);
	if (*out == NULL)
		return -1;
	if (ext_read(loc, *out, 64)) {
		free(*out);
		*out = NULL;
		return -2;
	}
	return 0;
}

int ctl_precache_bad(ctl_data_t *d, unsigned long loc)
{
	if (d->data_block != NULL && d->current_block == loc)
		return 0;
	free(d->data_block);
	d->current_block = loc;
	return load_bad(loc, &d->data_block);
}

int ctl_precache_good(ctl_data_t *d, unsigned long loc)
{
	if (d->data_block != NULL && d->current_block == loc)
		return 0;
	free(d->data_block);
	d->current_block = loc;
	return load_good(loc, &d->data_block);
}

int ctl_precache_nohit(ctl_data_t *d, unsigned long loc)
{
	if (d->data_block != NULL && d->current_block != 0)	/* wrong: not compared with loc */
		return 0;
	free(d->data_block);
	d->current_block = loc;
	return load_good(loc, &d->data_block);
}

/* K12-samebound: the hit path and the miss path apply different bounds to the same argument */
int ctl_seek_two_bounds(struct ctl_meta_t *m, unsigned long block, unsigned long off);
int ctl_seek_one_bound(struct ctl_meta_t *m, unsigned long block, unsigned long off);

int ctl_seek_two_bounds(struct ctl_meta_t *m, unsigned long block, unsigned long off)
{
	if (block == m->block_offset) {
		if (off > m->data_used)
			return -1;
		return 0;
	}
	if (off >= m->data_used)
		return -1;
	return 0;
}

int ctl_seek_one_bound(struct ctl_meta_t *m, unsigned long block, unsigned long off)
{
	if (block == m->block_offset) {
		if (off >= m->data_used)
			return -1;
		return 0;
	}
	if (!(off < m->data_used))
		return -1;
	return 0;
}
