/* evaluates SQFS_INODE_* enumerators through the same compiler pipeline as the analysed units */
#include "sqfs/inode.h"

const unsigned int verif_inode_types[] = {
	SQFS_INODE_DIR, SQFS_INODE_FILE, SQFS_INODE_SLINK, SQFS_INODE_BDEV, SQFS_INODE_CDEV, SQFS_INODE_FIFO,
	SQFS_INODE_SOCKET, SQFS_INODE_EXT_DIR, SQFS_INODE_EXT_FILE,
};
