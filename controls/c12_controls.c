/* positive controls for K10 (C12) */
#include <unistd.h>
#include <errno.h>

int ctl_once(int fd, const char *buf, size_t n);
int ctl_noadvance(int fd, const char *buf, size_t n);
int ctl_noeintr(int fd, const char *buf, size_t n);
int ctl_good(int fd, const char *buf, size_t n);

int ctl_once(int fd, const char *buf, size_t n)
{
	return write(fd, buf, n) < 0 ? -1 : 0;		/* no loop */
}

int ctl_noadvance(int fd, const char *buf, size_t n)
{
	while (n > 0) {
		ssize_t r = write(fd, buf, n);
		if (r < 0) {
			if (errno == EINTR)
				continue;
			return -1;
		}
		if (r == 0)
			return -1;
		n -= r;					/* buf not advanced */
	}
	return 0;
}

int ctl_noeintr(int fd, const char *buf, size_t n)
{
	while (n > 0) {
		ssize_t r = write(fd, buf, n);
		if (r < 0)
			return -1;			/* EINTR is fatal */
		if (r == 0)
			return -1;
		n -= r;
		buf += r;
	}
	return 0;
}

int ctl_good(int fd, const char *buf, size_t n)
{
	while (n > 0) {
		ssize_t r = write(fd, buf, n);
		if (r < 0) {
			if (errno == EINTR)
				continue;
			return -1;
		}
		if (r == 0)
			return -1;
		n -= r;
		buf += r;
	}
	return 0;
}

/* K10-reposition: a retry on EINTR must not repeat a relative seek */
#include <unistd.h>
int ctl_seek_again(int fd, long off, int whence);
int ctl_seek_once(int fd, long off, int whence);

int ctl_seek_again(int fd, long off, int whence)
{
	long pos;
	int ret;

	do {
		pos = lseek(fd, off, whence);		/* relative to where the last attempt left it */
		if (pos < 0)
			return -1;
		ret = ftruncate(fd, pos);
	} while (ret != 0 && errno == EINTR);

	return ret;
}

int ctl_seek_once(int fd, long off, int whence)
{
	long pos = lseek(fd, off, whence);

	if (pos < 0)
		return -1;

	while (ftruncate(fd, pos) != 0) {
		if (errno != EINTR)
			return -1;
	}
	return 0;
}
