/* controls for C04: K7-strtrunc */
#include <string.h>
#include <stdio.h>

struct ctl_hdr { char name[100]; char mode[8]; };

static int ctl_emit_good(struct ctl_hdr *h, const char *name)
{
	memset(h, 0, sizeof(*h));
	strncpy(h->name, name, sizeof(h->name) - 1);
	return 0;
}

int ctl_write_good(struct ctl_hdr *h, const char *name, unsigned int counter)
{
	char buffer[64];

	if (strlen(name) >= 100) {
		sprintf(buffer, "gnu/data%u", counter);
		name = buffer;
	}
	return ctl_emit_good(h, name);
}

static int ctl_emit_bad(struct ctl_hdr *h, const char *name)
{
	memset(h, 0, sizeof(*h));
	strncpy(h->name, name, sizeof(h->name) - 1);
	return 0;
}

int ctl_write_bad(struct ctl_hdr *h, const char *name, unsigned int counter)
{
	char buffer[64];

	if (strlen(name) > sizeof(h->name)) {
		sprintf(buffer, "gnu/data%u", counter);
		name = buffer;
	}
	return ctl_emit_bad(h, name);
}
