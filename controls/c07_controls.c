/* controls for C07: K1-progress */
#include <stddef.h>

typedef struct sqfs_object_t { void (*destroy)(struct sqfs_object_t *); struct sqfs_object_t *(*copy)(const struct sqfs_object_t *); } sqfs_object_t;
typedef struct sqfs_istream_t {
	sqfs_object_t base;
	int (*get_buffered_data)(struct sqfs_istream_t *strm, const unsigned char **out, size_t *size, size_t want);
	void (*advance_buffer)(struct sqfs_istream_t *strm, size_t count);
	const char *(*get_filename)(struct sqfs_istream_t *strm);
} sqfs_istream_t;

struct ctl_strm { sqfs_istream_t base; unsigned long off, size; unsigned char buffer[512]; };
int ctl_region(struct ctl_strm *s, unsigned long *count);

static int ctl_get_good(sqfs_istream_t *strm, const unsigned char **out, size_t *size, size_t want)
{
	struct ctl_strm *s = (struct ctl_strm *)strm;
	unsigned long diff;

	if (s->off >= s->size)
		return 1;
	ctl_region(s, &diff);
	if (diff == 0)
		return 1;
	if (diff > want)
		diff = want;
	*out = s->buffer;
	*size = diff <= sizeof(s->buffer) ? diff : sizeof(s->buffer);
	return 0;
}

static int ctl_get_bad(sqfs_istream_t *strm, const unsigned char **out, size_t *size, size_t want)
{
	struct ctl_strm *s = (struct ctl_strm *)strm;
	unsigned long diff;

	if (s->off >= s->size)
		return 1;
	ctl_region(s, &diff);
	if (diff > want)
		diff = want;
	*out = s->buffer;
	*size = diff <= sizeof(s->buffer) ? diff : sizeof(s->buffer);
	return 0;
}

void ctl_install(struct ctl_strm *a, struct ctl_strm *b)
{
	a->base.get_buffered_data = ctl_get_good;
	b->base.get_buffered_data = ctl_get_bad;
}

/* ---- K5-optnull ---- */
#include <string.h>
#include <stdlib.h>
typedef struct options_t { const char *infile; char *packdir; int flags; } options_t;
void ctl_opt_parse(options_t *opt);
size_t ctl_opt_len(const char *base);
size_t ctl_opt_bad(const options_t *opt);
size_t ctl_opt_good(const options_t *opt);
size_t ctl_opt_tied(const options_t *opt);

void ctl_opt_parse(options_t *opt)
{
	if (opt->infile == NULL && opt->packdir == NULL)
		exit(1);
}

size_t ctl_opt_len(const char *base)
{
	return strlen(base);
}

size_t ctl_opt_bad(const options_t *opt)
{
	return ctl_opt_len(opt->packdir);		/* NULL when only infile was given */
}

size_t ctl_opt_good(const options_t *opt)
{
	if (opt->packdir == NULL)
		return 0;
	return ctl_opt_len(opt->packdir);
}

size_t ctl_opt_tied(const options_t *opt)
{
	if (opt->infile == NULL)
		return ctl_opt_len(opt->packdir);	/* the parser rejected both being NULL */
	return 0;
}
