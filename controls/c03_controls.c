/* positive / negative controls for C03 rules whose instance count on the tree is zero */
#include <stddef.h>
#include <string.h>

void *memcpy(void *, const void *, size_t);

/* K13-lastchunk: the last chunk of a table taken as the remainder alone / with the full-chunk case */
void ctl_last_chunk_rem(char *dst, const char *src, size_t total, size_t i, size_t count);
void ctl_last_chunk_ok(char *dst, const char *src, size_t total, size_t i, size_t count);
void ctl_last_chunk_rem(char *dst, const char *src, size_t total, size_t i, size_t count)
{
	size_t diff;
	if ((i + 1) < count)
		diff = 8192;
	else
		diff = total % 8192;
	memcpy(dst, src, diff);
}

void ctl_last_chunk_ok(char *dst, const char *src, size_t total, size_t i, size_t count)
{
	size_t diff = total % 8192;
	if ((i + 1) < count || diff == 0)
		diff = 8192;
	memcpy(dst, src, diff);
}
