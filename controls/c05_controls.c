/* positive controls for K6 (C05) */
#include <stdlib.h>
#include <string.h>

typedef struct sqfs_file_t {
	int (*read_at)(struct sqfs_file_t *f, unsigned long off, void *buf, size_t n);
} sqfs_file_t;

typedef struct ctl_rd_t {
	sqfs_file_t *file;
	unsigned int block_size;
	unsigned int other;
	unsigned char *buffer;
} ctl_rd_t;

ctl_rd_t *ctl_create(sqfs_file_t *f, unsigned int bs);
int ctl_unchecked(ctl_rd_t *rd, unsigned int word);
int ctl_wrong_bound(ctl_rd_t *rd, unsigned int word);
int ctl_checked(ctl_rd_t *rd, unsigned int word);
void *ctl_alloc_fill(sqfs_file_t *f, unsigned short len);
int ctl_clamped(ctl_rd_t *rd, size_t want);

ctl_rd_t *ctl_create(sqfs_file_t *f, unsigned int bs)
{
	ctl_rd_t *rd = calloc(1, sizeof(*rd));
	if (rd == NULL)
		return NULL;
	rd->file = f;
	rd->block_size = bs;
	rd->buffer = malloc(bs);
	if (rd->buffer == NULL) { free(rd); return NULL; }
	return rd;
}

int ctl_unchecked(ctl_rd_t *rd, unsigned int word)
{
	unsigned int disksz = word & 0x00FFFFFF;
	if (disksz == 0)
		return 0;
	return rd->file->read_at(rd->file, 0, rd->buffer, disksz);	/* never compared with block_size */
}

int ctl_wrong_bound(ctl_rd_t *rd, unsigned int word)
{
	unsigned int disksz = word & 0x00FFFFFF;
	if (disksz > rd->other)						/* unrelated quantity */
		return -1;
	return rd->file->read_at(rd->file, 0, rd->buffer, disksz);
}

int ctl_checked(ctl_rd_t *rd, unsigned int word)
{
	unsigned int disksz = word & 0x00FFFFFF;
	if (disksz > rd->block_size)
		return -1;
	return rd->file->read_at(rd->file, 0, rd->buffer, disksz);
}

void *ctl_alloc_fill(sqfs_file_t *f, unsigned short len)
{
	unsigned char *p = malloc((size_t)len + 1);
	if (p == NULL)
		return NULL;
	if (f->read_at(f, 0, p, len)) { free(p); return NULL; }
	p[len] = 0;
	return p;
}

int ctl_clamped(ctl_rd_t *rd, size_t want)
{
	size_t n = want;
	if (n > rd->block_size)
		n = rd->block_size;
	memset(rd->buffer, 0, n);
	return 0;
}

/* ---- growing buffer (growth prover) and dangling pointers (K8-dangling) ---- */
struct ctl_ent { unsigned int a, b, size; };
struct ctl_idx { unsigned int hdr[4]; unsigned char extra[]; };

/* correct: doubling until the new entry fits behind what is already stored */
struct ctl_idx *ctl_grow_good(sqfs_file_t *f, unsigned int count)
{
	size_t max = 128, used = 0, n;
	struct ctl_idx *out = calloc(1, sizeof(*out) + max), *nw;
	struct ctl_ent ent;

	if (out == NULL)
		return NULL;
	for (unsigned int i = 0; i < count; ++i) {
		if (f->read_at(f, 0, &ent, sizeof(ent)))
			goto fail;
		n = max;
		while (sizeof(ent) + ent.size + 1 > n - used)
			n *= 2;
		if (n > max) {
			nw = realloc(out, sizeof(*out) + n);
			if (nw == NULL)
				goto fail;
			out = nw;
			max = n;
		}
		memcpy(out->extra + used, &ent, sizeof(ent));
		used += sizeof(ent);
		if (f->read_at(f, 0, out->extra + used, ent.size + 1))
			goto fail;
		used += ent.size + 1;
	}
	return out;
fail:
	free(out);
	return NULL;
}

/* wrong: grows until the entry alone fits, ignoring what is already stored */
struct ctl_idx *ctl_grow_bad(sqfs_file_t *f, unsigned int count)
{
	size_t max = 128, used = 0, n, need;
	struct ctl_idx *out = calloc(1, sizeof(*out) + max), *nw;
	struct ctl_ent ent;

	if (out == NULL)
		return NULL;
	for (unsigned int i = 0; i < count; ++i) {
		if (f->read_at(f, 0, &ent, sizeof(ent)))
			goto fail;
		need = sizeof(ent) + ent.size + 1;
		if (need > max - used) {
			n = max;
			do {
				n *= 2;
			} while (n < need);
			nw = realloc(out, sizeof(*out) + n);
			if (nw == NULL)
				goto fail;
			out = nw;
			max = n;
		}
		memcpy(out->extra + used, &ent, sizeof(ent));
		used += sizeof(ent);
		if (f->read_at(f, 0, out->extra + used, ent.size + 1))
			goto fail;
		used += ent.size + 1;
	}
	return out;
fail:
	free(out);
	return NULL;
}

int ctl_dangling(sqfs_file_t *f, void **result)
{
	unsigned int x;

	*result = calloc(1, 64);
	if (*result == NULL)
		return -1;
	if (f->read_at(f, 0, &x, sizeof(x))) {
		free(*result);
		return -1;          /* *result still points at the freed block */
	}
	return 0;
}

int ctl_not_dangling(sqfs_file_t *f, void **result)
{
	unsigned int x;

	*result = calloc(1, 64);
	if (*result == NULL)
		return -1;
	if (f->read_at(f, 0, &x, sizeof(x))) {
		free(*result);
		*result = NULL;
		return -1;
	}
	return 0;
}

/* ---- offsets into a field buffer ---- */
int ctl_offset_ignored(ctl_rd_t *rd, const void *src, unsigned int off, unsigned int n);
int ctl_offset_ok(ctl_rd_t *rd, const void *src, unsigned int off, unsigned int n);
int ctl_offset_wrap(ctl_rd_t *rd, const void *src, unsigned int off, unsigned int n);
int ctl_src_wrap(ctl_rd_t *rd, void *dst, unsigned int off, unsigned int n);
int ctl_src_ok(ctl_rd_t *rd, void *dst, unsigned int off, unsigned int n);

/* wrong: the length alone is compared with the capacity, the offset is free */
int ctl_offset_ignored(ctl_rd_t *rd, const void *src, unsigned int off, unsigned int n)
{
	if (n > rd->block_size)
		return -1;
	memcpy(rd->buffer + off, src, n);
	return 0;
}

/* correct */
int ctl_offset_ok(ctl_rd_t *rd, const void *src, unsigned int off, unsigned int n)
{
	if (off > rd->block_size || n > rd->block_size - off)
		return -1;
	memcpy(rd->buffer + off, src, n);
	return 0;
}

/* wrong: the 32 bit sum wraps */
int ctl_offset_wrap(ctl_rd_t *rd, const void *src, unsigned int off, unsigned int n)
{
	if (off + n > rd->block_size)
		return -1;
	memcpy(rd->buffer + off, src, n);
	return 0;
}

/* the same two for a copy *out of* the buffer (K6-src) */
int ctl_src_wrap(ctl_rd_t *rd, void *dst, unsigned int off, unsigned int n)
{
	if (off + n > rd->block_size)
		return -1;
	memcpy(dst, rd->buffer + off, n);
	return 0;
}

int ctl_src_ok(ctl_rd_t *rd, void *dst, unsigned int off, unsigned int n)
{
	if (rd->block_size < off || (rd->block_size - off) < n)
		return -1;
	memcpy(dst, rd->buffer + off, n);
	return 0;
}

/* correct: the sum is formed in 64 bits from two 32 bit values */
int ctl_src_sum64(ctl_rd_t *rd, void *dst, unsigned int off, unsigned int n);
int ctl_src_sum64(ctl_rd_t *rd, void *dst, unsigned int off, unsigned int n)
{
	if ((unsigned long)off + n > rd->block_size)
		return -1;
	memcpy(dst, rd->buffer + off, n);
	return 0;
}

/* memory versions: a guard on a field is worth nothing once the field was rewritten */
typedef struct ctl_hdr_t {
	unsigned int size;
	unsigned int other;
} ctl_hdr_t;

void ctl_refill(ctl_hdr_t *h);
void ctl_touch_other(ctl_hdr_t *h);
int ctl_stale_guard(ctl_rd_t *rd, ctl_hdr_t *h, const void *src);
int ctl_fresh_guard(ctl_rd_t *rd, ctl_hdr_t *h, const void *src);

void ctl_refill(ctl_hdr_t *h)
{
	h->size = h->size * 2 + 1;
}

void ctl_touch_other(ctl_hdr_t *h)
{
	h->other += 1;
}

/* wrong: the size that was compared is not the size that is used */
int ctl_stale_guard(ctl_rd_t *rd, ctl_hdr_t *h, const void *src)
{
	if (h->size > rd->block_size)
		return -1;
	ctl_refill(h);
	memcpy(rd->buffer, src, h->size);
	return 0;
}

/* correct: the call in between leaves the size alone */
int ctl_fresh_guard(ctl_rd_t *rd, ctl_hdr_t *h, const void *src)
{
	if (h->size > rd->block_size)
		return -1;
	ctl_touch_other(h);
	memcpy(rd->buffer, src, h->size);
	return 0;
}

/* K13-trunc: a byte count narrowed to 32 bits before it sizes an allocation */
typedef struct ctl_tbl_t {
	unsigned int num_ids;
	unsigned int num_blocks;
	unsigned long *starts;
} ctl_tbl_t;

int ctl_trunc_count(ctl_tbl_t *t, unsigned int ids);
int ctl_wide_count(ctl_tbl_t *t, unsigned int ids);

int ctl_trunc_count(ctl_tbl_t *t, unsigned int ids)
{
	unsigned int bytes;

	t->num_ids = ids;
	bytes = t->num_ids * sizeof(unsigned long[2]);	/* wraps for ids >= 2^28 */
	t->num_blocks = bytes / 8192 + 1;
	t->starts = calloc(t->num_blocks, sizeof(unsigned long));
	return t->starts == NULL ? -1 : 0;
}

int ctl_wide_count(ctl_tbl_t *t, unsigned int ids)
{
	size_t bytes, blocks;

	t->num_ids = ids;
	bytes = t->num_ids * sizeof(unsigned long[2]);
	blocks = bytes / 8192 + 1;
	t->starts = calloc(blocks, sizeof(unsigned long));
	return t->starts == NULL ? -1 : 0;
}
