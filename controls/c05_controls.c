/* positive controls for K6 (C05) */
#include <stdlib.h>
#include <string.h>

typedef struct sqfs_file_t {
	int (*read_at)(struct sqfs_file_t *f, unsigned long off, void *buf, size_t n);
} sqfs_file_t;

typedef struct ctl_rd_t {
	sqfs_file_t *file;
	unsigned int block_size;
	unsigned int other;
	unsigned char *buffer;
} ctl_rd_t;

ctl_rd_t *ctl_create(sqfs_file_t *f, unsigned int bs);
int ctl_unchecked(ctl_rd_t *rd, unsigned int word);
int ctl_wrong_bound(ctl_rd_t *rd, unsigned int word);
int ctl_checked(ctl_rd_t *rd, unsigned int word);
void *ctl_alloc_fill(sqfs_file_t *f, unsigned short len);
int ctl_clamped(ctl_rd_t *rd, size_t want);

ctl_rd_t *ctl_create(sqfs_file_t *f, unsigned int bs)
{
	ctl_rd_t *rd = calloc(1, sizeof(*rd));
	if (rd == NULL)
		return NULL;
	rd->file = f;
	rd->block_size = bs;
	rd->buffer = malloc(bs);
	if (rd->buffer == NULL) { free(rd); return NULL; }
	return rd;
}

int ctl_unchecked(ctl_rd_t *rd, unsigned int word)
{
	unsigned int disksz = word & 0x00FFFFFF;
	if (disksz == 0)
		return 0;
	return rd->file->read_at(rd->file, 0, rd->buffer, disksz);	/* never compared with block_size */
}

int ctl_wrong_bound(ctl_rd_t *rd, unsigned int word)
{
	unsigned int disksz = word & 0x00FFFFFF;
	if (disksz > rd->other)						/* unrelated quantity */
		return -1;
	return rd->file->read_at(rd->file, 0, rd->buffer, disksz);
}

int ctl_checked(ctl_rd_t *rd, unsigned int word)
{
	unsigned int disksz = word & 0x00FFFFFF;
	if (disksz > rd->block_size)
		return -1;
	return rd->file->read_at(rd->file, 0, rd->buffer, disksz);
}

void *ctl_alloc_fill(sqfs_file_t *f, unsigned short len)
{
	unsigned char *p = malloc((size_t)len + 1);
	if (p == NULL)
		return NULL;
	if (f->read_at(f, 0, p, len)) { free(p); return NULL; }
	p[len] = 0;
	return p;
}

int ctl_clamped(ctl_rd_t *rd, size_t want)
{
	size_t n = want;
	if (n > rd->block_size)
		n = rd->block_size;
	memset(rd->buffer, 0, n);
	return 0;
}
