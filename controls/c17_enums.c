/* evaluates the public SQFS_BLK_* enumerators through the same compiler pipeline as the analysed units */
#include "sqfs/block.h"

const unsigned int verif_blk_flags[] = {
	SQFS_BLK_DONT_COMPRESS, SQFS_BLK_DONT_HASH, SQFS_BLK_DONT_FRAGMENT, SQFS_BLK_DONT_DEDUPLICATE,
	SQFS_BLK_IGNORE_SPARSE, SQFS_BLK_IS_SPARSE, SQFS_BLK_FIRST_BLOCK, SQFS_BLK_LAST_BLOCK,
	SQFS_BLK_IS_FRAGMENT, SQFS_BLK_FRAGMENT_BLOCK, SQFS_BLK_IS_COMPRESSED, SQFS_BLK_USER_SETTABLE_FLAGS,
};
