/* positive controls for K8 (C19): each bad_* hook contains exactly one kind of
 * defect; good_copy is a correct hook and must stay silent */
#include <stdlib.h>
#include <string.h>

typedef struct obj_t {
	size_t refcount;
	void (*destroy)(struct obj_t *);
	struct obj_t *(*copy)(const struct obj_t *);
} obj_t;

typedef struct {
	obj_t base;
	size_t len;
	char *buf;
	struct node *list;
} ctl_t;

struct node { struct node *next; };

void ctl_destroy(obj_t *o);
obj_t *bad_hdr_copy(const obj_t *o);
obj_t *bad_alias_copy(const obj_t *o);
obj_t *bad_release_copy(const obj_t *o);
obj_t *good_copy(const obj_t *o);

void ctl_destroy(obj_t *o)
{
	ctl_t *c = (ctl_t *)o;
	free(c->buf);
	free(c);
}

obj_t *bad_hdr_copy(const obj_t *o)
{
	const ctl_t *c = (const ctl_t *)o;
	ctl_t *n = calloc(1, sizeof(*n));
	if (n == NULL)
		return NULL;
	n->len = c->len;
	n->list = NULL;
	n->buf = malloc(c->len);
	if (n->buf == NULL) {
		free(n);
		return NULL;
	}
	memcpy(n->buf, c->buf, c->len);
	return (obj_t *)n;
}

obj_t *bad_alias_copy(const obj_t *o)
{
	const ctl_t *c = (const ctl_t *)o;
	ctl_t *n = malloc(sizeof(*n));
	if (n == NULL)
		return NULL;
	memcpy(n, c, sizeof(*n));
	if (n->list != NULL)
		n->list->next = NULL;	/* writes into the original's list */
	n->list = NULL;
	return (obj_t *)n;		/* buf still aliases the original */
}

obj_t *bad_release_copy(const obj_t *o)
{
	const ctl_t *c = (const ctl_t *)o;
	ctl_t *n = malloc(sizeof(*n));
	char *tmp;
	if (n == NULL)
		return NULL;
	memcpy(n, c, sizeof(*n));
	n->list = NULL;
	tmp = malloc(c->len);
	if (tmp == NULL) {
		free(n->buf);		/* the original's buffer */
		free(n);
		return NULL;
	}
	memcpy(tmp, c->buf, c->len);
	n->buf = tmp;
	return (obj_t *)n;
}

obj_t *good_copy(const obj_t *o)
{
	const ctl_t *c = (const ctl_t *)o;
	ctl_t *n = malloc(sizeof(*n));
	if (n == NULL)
		return NULL;
	memcpy(n, c, sizeof(*n));
	n->list = NULL;
	if (c->buf != NULL) {
		n->buf = malloc(c->len);
		if (n->buf == NULL) {
			free(n);
			return NULL;
		}
		memcpy(n->buf, c->buf, c->len);
	}
	return (obj_t *)n;
}
