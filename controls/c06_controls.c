/* positive controls for C06: name gate and path sanitiser */
#include <sys/stat.h>
#include <stdlib.h>
#include <stdbool.h>

typedef struct sqfs_tree_node_t {
	struct sqfs_tree_node_t *parent;
	struct sqfs_tree_node_t *children;
	struct sqfs_tree_node_t *next;
	unsigned int mode;
	unsigned char name[];
} sqfs_tree_node_t;

extern bool is_filename_sane(const char *name, bool check_os);
extern int sqfs_tree_node_get_path(const sqfs_tree_node_t *n, char **out);
extern int canonicalize_name(char *name);

int ctl_walk_nogate(const sqfs_tree_node_t *n);
int ctl_walk_nocanon(const sqfs_tree_node_t *n);
int ctl_walk_good(const sqfs_tree_node_t *n);

int ctl_walk_nogate(const sqfs_tree_node_t *n)
{
	const sqfs_tree_node_t *c;
	char *path;
	if (sqfs_tree_node_get_path(n, &path))
		return -1;
	if (canonicalize_name(path)) { free(path); return -1; }
	if (mkdir(path, 0755)) { free(path); return -1; }	/* no is_filename_sane gate */
	free(path);
	for (c = n->children; c != NULL; c = c->next)
		if (ctl_walk_nogate(c))
			return -1;
	return 0;
}

int ctl_walk_nocanon(const sqfs_tree_node_t *n)
{
	const sqfs_tree_node_t *c;
	char *path;
	if (!is_filename_sane((const char *)n->name, true))
		return 0;
	if (sqfs_tree_node_get_path(n, &path))
		return -1;
	if (mkdir(path, 0755)) { free(path); return -1; }	/* absolute path reaches the OS */
	free(path);
	for (c = n->children; c != NULL; c = c->next)
		if (ctl_walk_nocanon(c))
			return -1;
	return 0;
}

int ctl_walk_good(const sqfs_tree_node_t *n)
{
	const sqfs_tree_node_t *c;
	char *path;
	if (!is_filename_sane((const char *)n->name, true))
		return 0;
	if (sqfs_tree_node_get_path(n, &path))
		return -1;
	if (canonicalize_name(path)) { free(path); return -1; }
	if (mkdir(path, 0755)) { free(path); return -1; }
	free(path);
	for (c = n->children; c != NULL; c = c->next)
		if (ctl_walk_good(c))
			return -1;
	return 0;
}
