/* evaluates the ISTREAM_LINE_* flags of the line reader through the same compiler pipeline as the analysed units */
#include "config.h"
#include "util/parse.h"

const unsigned int verif_line_flags[] = { ISTREAM_LINE_LTRIM, ISTREAM_LINE_RTRIM, ISTREAM_LINE_SKIP_EMPTY };
