/* positive controls for K5 (C13) */
#include <stdlib.h>
#include <string.h>
#include <unistd.h>

int ctl_can_fail(int fd, void *buf, size_t n);
int ctl_drop(int fd);
int ctl_swallow(int fd);
char *ctl_nocheck(const char *s);
int ctl_good(int fd, char **out);

int ctl_can_fail(int fd, void *buf, size_t n)
{
	if (read(fd, buf, n) < 0)
		return -2;
	return 0;
}

int ctl_drop(int fd)
{
	char b[8];
	ctl_can_fail(fd, b, sizeof(b));		/* E1: result discarded */
	return 0;
}

int ctl_swallow(int fd)
{
	char b[8];
	int ret = ctl_can_fail(fd, b, sizeof(b));
	if (ret)
		return 0;				/* E2: error turned into success */
	return b[0];
}

char *ctl_nocheck(const char *s)
{
	char *p = malloc(strlen(s) + 1);
	strcpy(p, s);					/* E3: no NULL test */
	return p;
}

int ctl_good(int fd, char **out)
{
	char *p = malloc(16);
	int ret;
	if (p == NULL)
		return -1;
	ret = ctl_can_fail(fd, p, 16);
	if (ret) {
		free(p);
		return ret;
	}
	*out = p;
	return 0;
}

/* ---- E4: error result overwritten round a loop;  E5: tri-state result collapsed ---- */
int ctl_loop_overwrite(int fd, char *buf, size_t n)
{
	int ret = 0;

	while (n > 0) {
		size_t d = n > 16 ? 16 : n;
		n -= d;
		buf += d;
		if ((n & 1) == 0)
			ret = ctl_can_fail(fd, buf, d);
	}
	return ret;
}

int ctl_loop_checked(int fd, char *buf, size_t n)
{
	int ret;

	while (n > 0) {
		size_t d = n > 16 ? 16 : n;
		n -= d;
		buf += d;
		ret = ctl_can_fail(fd, buf, d);
		if (ret)
			return ret;
	}
	return 0;
}

/* < 0 error, 0 equal, > 0 different */
int ctl_tristate(int fd, char *a, char *b, size_t n)
{
	int ret = ctl_can_fail(fd, a, n);

	if (ret)
		return ret;
	for (size_t i = 0; i < n; ++i) {
		if (a[i] != b[i])
			return 1;
	}
	return 0;
}

int ctl_collapse(int fd, char *a, char *b, size_t n)
{
	return ctl_tristate(fd, a, b, n) == 0;
}

int ctl_no_collapse(int fd, char *a, char *b, size_t n)
{
	int ret = ctl_tristate(fd, a, b, n);

	if (ret < 0)
		return ret;
	return ret == 0;
}

/* E7: allocation failure leaves through the failure label with the status still 0 */
int ctl_fail_zero(int fd, char **out);
int ctl_fail_set(int fd, char **out);
int ctl_fail_zero(int fd, char **out)
{
	char b[8];
	char *p = NULL;
	int ret = ctl_can_fail(fd, b, sizeof(b));
	if (ret != 0)
		goto fail;
	p = malloc(16);
	if (p == NULL)
		goto fail;				/* ret is 0 here */
	memcpy(p, b, 8);
	*out = p;
	return 0;
fail:
	free(p);
	*out = NULL;
	return ret;
}

int ctl_fail_set(int fd, char **out)
{
	char b[8];
	char *p = NULL;
	int ret = ctl_can_fail(fd, b, sizeof(b));
	if (ret != 0)
		goto fail;
	p = malloc(16);
	if (p == NULL) {
		ret = -1;
		goto fail;
	}
	memcpy(p, b, 8);
	*out = p;
	return 0;
fail:
	free(p);
	*out = NULL;
	return ret;
}

/* E8: a failure is taken for "not available, try the next one" */
int ctl_try_next(const int *fds, int n);
int ctl_try_next_told(const int *fds, int n);
int ctl_try_next(const int *fds, int n)
{
	char b[8];
	int i;
	for (i = 0; i < n; ++i) {
		int ret = ctl_can_fail(fds[i], b, sizeof(b));
		if (ret == 0)
			return i;
	}
	return n;
}

int ctl_try_next_told(const int *fds, int n)
{
	char b[8];
	int i;
	for (i = 0; i < n; ++i) {
		int ret = ctl_can_fail(fds[i], b, sizeof(b));
		if (ret == 0)
			return i;
		if (ret != -2)
			return -1;
	}
	return n;
}

/* K8-freestack: the small-buffer idiom, released without / with the test that excludes the local array */
void *malloc(unsigned long);
void free(void *);
int ctl_free_stack(unsigned long n, int fd);
int ctl_free_heap_only(unsigned long n, int fd);
int ctl_free_stack(unsigned long n, int fd)
{
	char small[64], *p;
	int ret;
	p = (n <= sizeof(small)) ? small : malloc(n);
	if (p == 0)
		return -1;
	ret = ctl_can_fail(fd, p, n);
	free(p);
	return ret;
}

int ctl_free_heap_only(unsigned long n, int fd)
{
	char small[64], *p;
	int ret;
	p = (n <= sizeof(small)) ? small : malloc(n);
	if (p == 0)
		return -1;
	ret = ctl_can_fail(fd, p, n);
	if (p != small)
		free(p);
	return ret;
}

/* E4-replaced: the first status is replaced by a later one without having been looked at / after it was looked at */
int ctl_replaced(int fd, int fd2, int back);
int ctl_replaced_checked(int fd, int fd2, int back);
int ctl_replaced(int fd, int fd2, int back)
{
	char b[8];
	int ret = ctl_can_fail(fd, b, sizeof(b));
	if (back >= 0)
		ret = ctl_can_fail(fd2, b, sizeof(b));
	return ret;
}

int ctl_replaced_checked(int fd, int fd2, int back)
{
	char b[8];
	int ret = ctl_can_fail(fd, b, sizeof(b));
	if (ret == 0 && back >= 0)
		ret = ctl_can_fail(fd2, b, sizeof(b));
	return ret;
}
