/* positive controls for K5 (C13) */
#include <stdlib.h>
#include <string.h>
#include <unistd.h>

int ctl_can_fail(int fd, void *buf, size_t n);
int ctl_drop(int fd);
int ctl_swallow(int fd);
char *ctl_nocheck(const char *s);
int ctl_good(int fd, char **out);

int ctl_can_fail(int fd, void *buf, size_t n)
{
	if (read(fd, buf, n) < 0)
		return -2;
	return 0;
}

int ctl_drop(int fd)
{
	char b[8];
	ctl_can_fail(fd, b, sizeof(b));		/* E1: result discarded */
	return 0;
}

int ctl_swallow(int fd)
{
	char b[8];
	int ret = ctl_can_fail(fd, b, sizeof(b));
	if (ret)
		return 0;				/* E2: error turned into success */
	return b[0];
}

char *ctl_nocheck(const char *s)
{
	char *p = malloc(strlen(s) + 1);
	strcpy(p, s);					/* E3: no NULL test */
	return p;
}

int ctl_good(int fd, char **out)
{
	char *p = malloc(16);
	int ret;
	if (p == NULL)
		return -1;
	ret = ctl_can_fail(fd, p, 16);
	if (ret) {
		free(p);
		return ret;
	}
	*out = p;
	return 0;
}
