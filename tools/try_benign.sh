#!/bin/bash
# usage: tools/try_benign.sh <patch.diff>   apply a behaviour-preserving patch to /repo, run all 19 quick checks, undo.
# prints one line per check that does not exit 0 (a false alarm or an analysis-broken)
p=$1
git -C /repo apply "$p" || { echo "patch does not apply: $p"; exit 3; }
for i in $(seq -w 1 19); do
  out=$(VERIF_MUTANT_RUN=1 /verif/check C$i 2>&1); rc=$?
  if [ $rc -ne 0 ]; then echo "C$i exit=$rc"; echo "$out" | grep -E "^   [A-Z]|BROKEN" | grep -v "exception\|note:" | head -6 | cut -c1-300; fi
done
git -C /repo checkout -- . ; git -C /repo clean -fdq -e '*.o' -e '*.lo' -e '.libs' -e '.deps' >/dev/null 2>&1
git -C /repo status --short | grep -v "^??" | head -3
