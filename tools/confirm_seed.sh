#!/bin/bash
# usage: tools/confirm_seed.sh <worktree> <seeddir>
# confirms: clean tree -> demo passes; patched tree builds, 89 tests pass, demo fails.  prints a summary line.
wt=$1; sd=$2
cd "$wt" || exit 9
git checkout -q -- . ; 
[ -f Makefile ] || { ./autogen.sh >/dev/null 2>&1; ./configure >/dev/null 2>&1; }
make -j16 >/dev/null 2>&1 || { echo "RESULT clean-build-failed"; exit 1; }
timeout 600 bash "$sd/demo.sh" "$wt" >/tmp/confirm_clean.log 2>&1; dc=$?
git apply "$sd/patch.diff" || { echo "RESULT patch-does-not-apply"; exit 1; }
make -j16 >/tmp/confirm_build.log 2>&1 || { echo "RESULT patched-build-failed"; git checkout -q -- .; exit 1; }
make -j16 check >/tmp/confirm_check.log 2>&1
pass=$(grep -E "^# PASS:" /tmp/confirm_check.log | awk '{s+=$3} END{print s}')
fail=$(grep -E "^# (FAIL|ERROR):" /tmp/confirm_check.log | awk '{s+=$3} END{print s}')
timeout 600 bash "$sd/demo.sh" "$wt" >/tmp/confirm_patched.log 2>&1; dp=$?
git checkout -q -- . ; git clean -fdq -e '*.o' >/dev/null 2>&1
make -j16 >/dev/null 2>&1
echo "RESULT demo_clean_exit=$dc tests_pass=$pass tests_fail=$fail demo_patched_exit=$dp"
