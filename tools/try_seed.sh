#!/bin/bash
# usage: tools/try_seed.sh <patch.diff> <PID...>   apply to /repo, run the checks, undo
p=$1; shift
git -C /repo apply "$p" || { echo "patch does not apply"; exit 3; }
for id in "$@"; do
  /verif/check $id 2>&1 | grep -E "VIOLATION|ANALYSIS-BROKEN|OK property|^   [A-Z]" | grep -v "exception\|note:" | head -30
done
git -C /repo checkout -- .
git -C /repo status --short | head -3
