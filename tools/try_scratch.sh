#!/bin/bash
# usage: tools/try_scratch.sh <patch.diff> <PID...>   apply to a scratch copy of /repo (never /repo itself), run the checks
p=$(realpath "$1"); shift
d=$(mktemp -d /tmp/scr.XXXXXX)
rsync -a /repo/ "$d/"
git -C "$d" apply "$p" || { echo "patch does not apply"; rm -rf "$d"; exit 3; }
for id in "$@"; do
  VERIF_MUTANT_RUN=1 VERIF_REPO="$d" /verif/check $id 2>&1 | grep -E "VIOLATION|ANALYSIS-BROKEN|OK property|^   [A-Z]" | grep -v "exception\|note:" | cut -c1-400 | head -30
done
rm -rf "$d"
