#!/usr/bin/env python3
"""run every benign patch (benign/*/N.diff) against all 19 quick checks, each in its own scratch copy of /repo's
current tree (outside /repo and /verif), 6 patches at a time; prints the checks that are not silent"""
import os, sys, subprocess, tempfile, shutil, glob
from concurrent.futures import ThreadPoolExecutor
VERIF = os.path.dirname(os.path.dirname(os.path.abspath(__file__)))
REPO = os.environ.get("VERIF_REPO", "/repo")

def one(patch):
    name = os.path.relpath(patch, os.path.join(VERIF, "benign"))
    tmp = tempfile.mkdtemp(prefix="verif-benign-", dir="/tmp")
    out = []
    try:
        subprocess.run(["rsync", "-a", "--exclude", ".git", "--exclude", "*.o", "--exclude", "*.lo", "--exclude", ".libs",
                        "--exclude", "*.a", "--exclude", "*.la", REPO + "/", tmp + "/"], check=True)
        r = subprocess.run(["patch", "-p1", "-s", "--no-backup-if-mismatch", "-f", "-i", patch], cwd=tmp, capture_output=True, text=True)
        if r.returncode != 0:
            return name, ["does not apply"]
        for i in range(1, 20):
            pid = "C%02d" % i
            env = dict(os.environ, VERIF_REPO=tmp, VERIF_MUTANT_RUN="benign-" + name.replace("/", "-"))
            r = subprocess.run([os.path.join(VERIF, "check"), pid], env=env, capture_output=True, text=True, cwd=VERIF)
            if r.returncode != 0:
                lines = [l.strip()[:260] for l in r.stdout.splitlines() if (l.startswith("   ") or "BROKEN" in l) and "note:" not in l and "exception:" not in l]
                out.append("%s exit=%d %s" % (pid, r.returncode, " | ".join(lines[:3])))
            shutil.rmtree(os.path.join(VERIF, "out", pid + "-mutant-benign-" + name.replace("/", "-")), ignore_errors=True)
    finally:
        shutil.rmtree(tmp, ignore_errors=True)
    return name, out

patches = sorted(glob.glob(os.path.join(VERIF, "benign", "*", "*.diff")))
if len(sys.argv) > 1:
    patches = [p for p in patches if any(a in p for a in sys.argv[1:])]
bad = 0
with ThreadPoolExecutor(max_workers=6) as ex:
    for name, out in ex.map(one, patches):
        print(name, "silent" if not out else "")
        for l in out:
            bad += 1
            print("   ", l)
        sys.stdout.flush()
print("checks not silent:", bad)
