#!/usr/bin/env python3
"""regenerate /verif/MANIFEST.json from the table below (keeps it valid and complete)"""
import json

CHECKS = {
 "C19": dict(
  text="Static slot-state dataflow (K8) over every function installed in sqfs_object_t.copy, paired with the release "
       "summary of its destroy sibling: header initialised (H1), every released slot re-acquired (H2), no retained "
       "alias / write / release through a bit-copied pointer on any path incl. error paths (H3), container copy "
       "helpers analysed by the same engine (H4). Decides structural necessary conditions of the property on all "
       "paths; does not decide behavioural equivalence of copy and original. Also H5-state: fields that the library accumulates over an object's life are taken over by nodes the copy allocates.",
  note="trusted: clang-14 front end and mem2reg; tables of external release/pure functions in sa/copyflow.py; the "
       "borrowed-pointer table in sa/props/c19.py (each entry re-verified or reasoned)",
  technique="static analysis: typestate/ownership dataflow on LLVM IR with function-pointer slot resolution"),
 "C09": dict(
  text="Static lockset and condition-variable discipline (K4) over the threaded pool: lock-state dataflow over every "
       "function of threadpool.c (helpers: meet over call sites) decides L1 shared fields only under the mutex, L2 "
       "main-only fields unreachable from the thread entry, L3 balanced locking on all paths, L4 waits in "
       "predicate loops, L5 no lost wake-up (must-pass-through broadcast before unlock), L6 every wait predicate "
       "contains the failure flag (deadlock after worker failure), L7 ticket discipline, L8/L9 block processor "
       "use of set_worker_ptr and dequeue/get_status. Quantifies over all paths = all interleavings at "
       "mutex granularity for these clauses; does not decide done-list sortedness or exactly-once counting.",
  note="trusted: POSIX semantics of pthread mutex/condvar; the frozen field-class table in sa/props/c09.py "
       "(every pool field must be classified, else exit 2)",
  technique="static analysis: lockset dataflow + condition-variable predicate/wake-up rules on LLVM IR"),
 "C10": dict(
  text="Static cache tag/payload coherence (K9) for the only history-carrying state of the readers: a 4-state "
       "dataflow over every function writing the meta reader's cached block proves no return leaves the payload "
       "overwritten under the old tag; for the data reader's pointer caches a consistency dataflow (tag change / "
       "free must be followed by replacement or NULL) plus a proof that the loading helper stores NULL through its "
       "out-parameter before every failing return; cache-hit returns are guarded by the tag (and pointer); xattr "
       "value readers seek back on every success path with the out-of-line flag; who-may-write rule over all "
       "reader fields. Does not decide agreement of the three file-data APIs (value-level).",
  note="trusted: the frozen cache table (payload -> tag) in sa/props/c10.py; anchors re-resolved on every run, a "
       "vanished field is exit 2",
  technique="static analysis: typestate dataflow over the CFG (cache coherence), must-pass-through and who-may-write rules on LLVM IR"),
 "C14": dict(
  text="Static effect-ordering rules over the image writer with a may-write-output effect summary (calls through "
       "sqfs_file_t.write_at/.truncate and sqfs_ostream_t.append, resolved through function-pointer slots and "
       "type-directed sqfs_drop): provisional superblock constants (K12) and the init->write window, single final "
       "sqfs_super_write dominating the success return with no non-appending output after it (K11), who-may-call "
       "sqfs_super_write / write at offset 0 (K2), readers reject the provisional state (K1), packers write nothing "
       "after finish (K11). Quantifies over all paths = all crash points between two issued writes for the ordering "
       "clause; does not decide which bytes the kernel has flushed.",
  note="trusted: slot resolution (an unresolved indirect call that a rule needs is exit 2); the list of output slots "
       "in sa/effects.py",
  technique="static analysis: effect summaries + dominance/reachability (must-precede) rules on LLVM IR"),
 "C06": dict(
  text="Static confinement argument for rdsquashfs --unpack over the whole rdsquashfs link closure: discovery of all "
       "file-system mutating call sites; K1 name gate (every mutating call and recursion of each tree walk dominated by "
       "the accepting edge of is_filename_sane on that node); interprocedural backward provenance of every path "
       "argument (source get_path -> sanitiser canonicalize_name -> sink, deferred file list included); constant "
       "hardening flags (O_EXCL, no O_TRUNC, AT_SYMLINK_NOFOLLOW, lsetxattr, !S_ISLNK before fchmodat); ordering in "
       "main (duplicate check and O_EXCL creation pass dominate re-opening passes; failed chdir never unpacks); "
       "get_path refuses '/', '.', '..'. Decides the structural confinement argument on all paths; does not decide that "
       "the sort finds every duplicate, nor races with other processes. Also K2-sorttotal (no data-dependent shortcut in the sort unless a full adjacent scan), K2-walk (traversal reaches every directory), K12 table of unreviewed name-creating calls; K1-order is helper-transparent.",
  note="trusted: the table of mutating primitives and their path-argument positions in sa/props/c06.py; libc semantics of "
       "the flags",
  technique="static analysis: dominance (must-pass-through) + interprocedural source/sanitiser/sink provenance on LLVM IR"),
 "C18": dict(
  text="Static funnel and data-independence rules: (F1) the verdict of every canonicalize_name/is_filename_sane call "
       "in all five tools is consumed; (F2) the tar iterator, pack-file line handler and tree node constructor use an "
       "untrusted name only under the accepting edge of the sanitiser on the same string (unpack side: C06); (DI) every "
       "byte the two functions load from their argument is only compared for (in)equality with '/', '.', NUL or copied "
       "within the buffer, i.e. behaviour on all strings is determined by the 3-letter alphabet. Decides the third "
       "sentence of the property (funnel) and a parametricity precondition; does NOT decide the input/output relation "
       "(rejects exactly '..', idempotent, never grows), which is value-level.",
  note="trusted: the list of name sinks per entry point in sa/props/c18.py",
  technique="static analysis: dominance rules + def-use dataflow (data independence) on LLVM IR"),
 "C13": dict(
  text="Static error discipline over the link closures of all four tools: ERR = int functions that can return non-zero "
       "and reach an allocator / I/O call / file-stream slot (call-graph fix-point with slot resolution); E1 every ERR "
       "result is used, E2 no failure edge falls straight into 'return 0', E3 every allocator result is NULL-tested "
       "(directly or through the location it was stored to) before dereference and realloc never clobbers the only copy; "
       "packers: every exit after a successful sqfs_writer_init passes sqfs_writer_cleanup, EXIT_SUCCESS only from the "
       "success edge of sqfs_writer_finish, cleanup unlinks; all mains: exit status 0 unreachable from any failure edge "
       "(branch-consistent reachability); submit failures propagate; single-owner block hand-over (no double free on "
       "error paths); truncated archive input is an error in the archive layer (T1/T2). Decides that every fault reaches "
       "a decision on all paths; does not decide that the handling is right, nor exit 0 => fault-free bytes. Also E4 (error result overwritten round a loop), E5 (tri-state result collapsed to ==0), E6 (error edge returns a regular value), K1-cleanup init-unlinks and chdir-undone (path-sensitive).",
  note="trusted: tables of fallible libc functions / allocators in sa/errflow.py; one reasoned E1 exception",
  technique="static analysis: error-propagation / unused-result / null-check dataflow and must-pass-through rules on LLVM IR"),
 "C12": dict(
  text="Static K2 confinement + K10 partial-transfer discipline over all five tools: raw read/write/pread/pwrite and "
       "stdio data transfers occur only in lib/sqfs/src/io/{file,istream,ostream}.c; at each raw call site: inside a "
       "loop, EINTR re-enters with unchanged buffer/size/offset, zero leaves the loop, every varying operand "
       "(loop-carried phi or fill-level field) advances by the result; every sqfs_istream_t consumer advances by an "
       "amount derived from what get_buffered_data delivered and tests its result; the archive layer treats end of "
       "input inside a record as an error and compares every read count with the requested size. Decides the retry/"
       "advance structure on all paths = for all short-count/EINTR sequences; equality of outputs is value-level. Count-returning chunk primitives hand the loop / exit / progress obligations to their callers.",
  note="trusted: POSIX semantics of short counts and EINTR; the list of raw transfer functions in sa/props/c12.py",
  technique="static analysis: who-may-call rule + loop/phi (SSA) analysis of transfer loops on LLVM IR"),
 "C05": dict(
  text="Static bounded-sink rule (K6) over all 26 anchored reader units: for every memcpy/memmove/memset/strcpy, read "
       "through sqfs_file_t.read_at, compressor output and meta/stream reads (about 120 sinks) the length is derived to be "
       "<= the destination's capacity: constants vs static object sizes; linear arithmetic offset+length <= allocation "
       "size (with the overflow intrinsics); provenance-based bounds (dominating guards, clamps, masks, do_block "
       "contract, memory-carried lengths, cursor loops, interprocedural parameter bounds) against capacities fixed at "
       "the buffers' allocation sites. Plus directory-loop check on the link path, table windows from superblock fields, "
       "superblock sanity tests dominate success, allocation-size arithmetic. Decides absence of out-of-bounds WRITES "
       "at these sinks on all paths; does not decide out-of-bounds reads via string functions, loop termination in "
       "general, or the codec libraries. Also K8-dangling (freed pointer not left in caller-visible memory), growth prover for re-allocated buffers, K1-double (doubling loops start non-zero).",
  note="trusted: three reasoned exceptions in sa/props/c05.py; 'a pointer to struct T points to sizeof(T) bytes'",
  technique="static analysis: bounded-sink dataflow (linear forms + guard/provenance reasoning) on LLVM IR"),
 "C07": dict(
  text="Static rules for the untrusted-input front ends of tar2sqfs/gensquashfs: sizes decoded from the archive reach "
       "record_to_memory/read_pax_header only below a constant implementation limit (provenance proof, through validating "
       "helpers and parameters); strtol-derived PAX record length bounded above and below before it indexes the record; "
       "every decoder call in read_header dominated by magic/version test and valid checksum; K6 bounded sinks over all "
       "anchored parser units (three reasoned exceptions); codec wrappers re-enter their loop only on progress codes "
       "(no endless loop on corrupted compressed input); PAX 'already set' mask zeroed whenever the decoded header is "
       "wiped. Cleanup-after-failure and name canonicalisation are decided by C13/C18. Decides memory-safety sinks and "
       "specific non-termination shapes; does not decide termination in general (hard-link cycles). Also K8-dangling, K1-progress (member stream never reports success with 0 bytes), K1-chase (hard-link resolution has a cycle exit), K1-okprogress (codec wrappers answer OK only after their transfer loop ran).",
  note="trusted: libtar limit constant 65536; codec return-code tables; three K6 exceptions in sa/props/c07.py",
  technique="static analysis: bounded-sink dataflow, dominance rules, finite branch evaluation over library return codes, typestate (mask/payload) on LLVM IR"),
 "C15": dict(
  text="Structural clauses of the stream-compression wrappers: K-codec (finite branch evaluation over the documented "
       "return codes of zlib/liblzma/libbz2/libzstd: the wrapper loops again only on progress codes), K10-offsets "
       "(*in_read/*out_written accumulate the codec's counters), K12-finish (FLUSH_FULL maps to the library finish "
       "action), K1-trailer (flush finishes the codec stream, then the wrapped stream; sqfs2tar reports success only "
       "after that), K2-codec-table. The property as a whole (equality of decoded streams, concatenated members, "
       "truncation detection) is run-time behaviour of the codec libraries and is NOT decided; only these necessary "
       "conditions are. Also K1-errnow (codec error not deferred), K1-finish (library still called when finishing without input), K1-truncated (EOF inside a member is an error), K1-end (END only on the library's say-so; zstd wrapper recorded as known finding), K1-okprogress.",
  note="trusted: API constants of the four codec libraries",
  technique="static analysis: exhaustive branch evaluation over enumerated return codes + dominance/constant rules on LLVM IR"),
 "C08": dict(
  text="Necessary structural conditions for 'equal checksum and size alone never share storage': tools enable byte "
       "comparison (constant flags, descriptor fields from the opened file/uncompressor); loop-exit classification of the "
       "block-run search (loop bound / hash-only configuration / result of check_file_range_equal only, helper-"
       "transparent) with argument provenance; return classification of the fragment comparator (memcmp==0 over candidate "
       "bytes+offset vs current fragment, or constant under a NULL test of the configuration on every incoming edge); "
       "typestate of proc->current_frag at every fragment hash-table query and lookup-error test after it; in-flight "
       "copy taken before submit and freed only where the block is written; fragment re-read cache coherence. Does not "
       "decide that identical data DOES share storage, nor check_file_range_equal's arithmetic. Also K13-truncate, K5-frag-report (failed read-back recorded before 'not equal'), K11-everyblock, K13-dedup-args length = accumulator of the size-summing loop.",
  note="trusted: memcmp / check_file_range_equal compare bytes faithfully",
  technique="static analysis: loop-exit and return classification, typestate and must-precede rules on LLVM IR"),
 "C02": dict(
  text="The implementation's own determinism argument as structural rules: K3 worker confinement (everything reachable "
       "from the worker entry through every compressor's do_block: no I/O slots, no dedup/fragment/table bookkeeping, no "
       "block-processor/writer/table fields, no global writes, only memory functions and codec libraries); K2 order-"
       "relevant state written only on the submitting thread; K2 no environment query in the packers' closures except "
       "the documented ones, CPU count reaches only the worker count; comparators never order by address; both pool "
       "implementations fill all slots; in-flight copy before submit and fragment re-read cache coherence. Byte equality "
       "with the serial build and done-list order (a run-time sortedness invariant) are NOT decided. Also: K3 stateless workers (worker code stores only into the work item and codec-library structs); readdir accepted iff C11's A3 rules hold for the site.",
  note="trusted: allow-list of memory/codec functions; three documented environment inputs (each with its reason)",
  technique="static analysis: effect confinement over the slot-resolved call graph, who-may-write and must-precede rules on LLVM IR"),
 "C03": dict(
  text="The invariants are predicates over image bytes (value-level); decided are the structural checks the writer relies "
       "on: K1-contract (every compressing do_block implementation, through its static helpers, returns a positive size "
       "only where it is not larger than the input -- no block stored larger than its input), K7 (all ~50 narrowing stores "
       "into on-disk fields on the writer path: range-proven, covered by a re-verified guard provider -- directory header "
       "run limits with the exact 256-entry bound and +-32767 inode delta, id count, name length, device number, "
       "timestamps -- or a reasoned exception), K13-padding (remainder by cfg->devblksize), K1-metablock (8 KiB limit, "
       "uncompressed fallback). Sortedness, dense inode numbering, index placement, reference resolution: not decided. Also K13-truncate (dedup truncation point derived from the updated block list) and K11-everyblock (every completed block reaches the block writer).",
  note="trusted: the table of exceptions ('would need 2^32 entries in memory' class) in sa/k7.py",
  technique="static analysis: provenance-based range proofs (guards, clamps, tag-mediated guards, bit widths) and return-value classification on LLVM IR"),
 "C01": dict(
  text="Fidelity of a packed image (tree in = tree out, identical contents) is value-level and NOT decided. Decided are "
       "structural necessary conditions on LLVM IR of every unit: K7 'refused, not stored altered' (each implicit "
       "truncation stored into an on-disk / image-visible field on the writer path is range-proven, covered by a re-"
       "verified guard provider, or a reasoned exception), A1 tagged-union agreement (217 accesses to the inode union are "
       "under a tag test naming a type that owns the accessed member; make_extended/make_basic conversions pair the right "
       "members), K6-alloca (no input-sized stack allocation), K6-index (stores through caller-provided tables indexed by "
       "a growing counter are bounded), K2-column (every non-uniform column of a constant keyword/handler table is read). Also K14-cmp (all registered comparators / equality functions evaluated over 3^k orderings), K2-exact, K13-truncate, K11-everyblock; K7 imports facts implied by boolean helper answers.",
  note="trusted: exception tables in sa/k7.py and sa/props/c01.py, one reason per entry",
  technique="static analysis: provenance-based range proofs, tag-dominance of union member accesses, constant-table column liveness on LLVM IR"),
 "C04": dict(
  text="Round-trip / fix-point equality of conversions is value-level and NOT decided. Decided structurally: validation "
       "(magic, version, checksum) dominates every field decoder in read_header; PAX override mask reset with the header; "
       "timestamps and ids narrowed only with a proven range or clamp (K7); truncated archives are errors in the archive "
       "layer (T1/T2); writer well-formedness: header checksum computed after the last header store and before the "
       "append, file data can return 0 only through padd_file(), sqfs2tar exits 0 only after end-of-archive blocks and "
       "flush succeeded, SQFS_ERROR_UNSUPPORTED is distinguished; K12-layer: the hard-link filter wraps the name-"
       "rewriting iterator; K12-sparse: is_sparse_region answers 'data' only with a covering extent or no map. Also K7-strtrunc (strncpy limit vs. proven bound of strlen(source)), K13-paxlen (PAX record length is a fix-point over its own digits), K12-layer option agreement between next() and read_link() when the hard-link filter is below the rewriting layer.",
  note="trusted: K7 exception table; the list of header-writing helpers in sa/props/c04.py",
  technique="static analysis: dominance / must-precede, return-source classification and provenance rules on LLVM IR"),
 "C11": dict(
  text="Byte equality of images under permuted readdir order is NOT decided (it quantifies over runs). Decided on LLVM IR: "
       "A3-source -- every call that enumerates a host directory (readdir, scandir, glob, nftw, fts_read, getdents) lets "
       "only copies of the names leave its loop, into an array that is sorted over its full length, with a comparator "
       "whose result table over all orderings is an exact total order on whole names (one strcmp atom), before the "
       "function can return success; otherwise the source is classified unordered. A3-pipeline -- constructor chains "
       "(followed through out-parameters) never put the order-sensitive hard-link filter over an unordered host source. "
       "Downstream order-normalisation rules are armed only while some source is unordered.",
  note="trusted: classification table of iterator constructors in sa/props/c11.py; qsort sorts; dir_win32.c is not compiled here",
  technique="static analysis: escape analysis of the host's directory entries, must-pass-through (sort dominates success), exhaustive abstract evaluation of the comparator, constructor-chain typestate on LLVM IR"),
 "C16": dict(
  text="The round trip describe -> pack-file -> same tree is value-level and NOT decided. Decided is the lexical agreement of "
       "the two independently written ends, from character constants extracted out of LLVM IR: parser side = separator "
       "string handed to the tokenizer, byte constants every function that receives the raw line compares line bytes with "
       "(moving pointer = anywhere; fixed first byte = line start), look-ahead (escapable) set, escape introducer; printer "
       "side = quoting triggers, escaped set, escape and quote characters. Obligations O1..O9: separators and all parser "
       "specials trigger quoting; in-quote specials are escaped and nothing else is; escape/quote characters match; no "
       "printed line starts with a line-start special; every raw emission of a non-constant string is dominated by a "
       "negative quoting decision on that very string; escaping only inside quotes; keywords and device arity match the "
       "parser's table.",
  note="trusted: istream_get_line strips the line terminator; names with newline are excluded by the property",
  technique="static analysis: character-class extraction and set inclusion (agreement of sibling lexers), dominance of raw emissions by the quoting predicate, on LLVM IR"),
 "C17": dict(
  text="The layout of produced images is value-level and NOT decided. Decided on LLVM IR is the transport of every directive "
       "to the code that acts on it: K1-action (each user-settable block flag is tested where it must act -- compressor "
       "call, sparse marking, tail fragment, fragment and block deduplication; the bit is derived from the guard); "
       "K13-keyword (each sort file keyword ORs exactly the bit whose point of action matches its name); K13-transport "
       "(decoder -> node -> create_ostream -> begin_file -> blk_flags -> block -> block writer: each link derives from the "
       "previous carrier and no AND-mask clears a user bit); K13-first (first matching line wins); K13-notail (strictly "
       "greater than one block, gensquashfs and tar2sqfs); K11-order (post-process, sort, pack; packing walks the sorted "
       "list); K14-sort (priorities compared at full width, strictly; comparator-shaped helpers evaluated exhaustively); "
       "K13-export (entry count only grows, slot from inode number, written when requested).",
  note="trusted: SQFS_BLK_* enumerators are evaluated from the public header through the same compiler pipeline",
  technique="static analysis: guard/mask extraction, def-use transport chains with mask tracking, dominance order, exhaustive comparator evaluation on LLVM IR"),
}

NA_DEFAULT = "rules designed in DESIGN.md, not implemented yet (work in progress)"
NA = {}

def main():
    ids = [json.loads(l)["id"] for l in open("/verif/properties.jsonl")]
    m = {
     "version": 1,
     "setup_cmd": "python3 -c 'import sys; sys.path.insert(0,\"/verif\"); from sa import build; build.ensure_tools(); build.build_ir()'",
     "hooks": {
      "guard": "SQFS_TOOLS_NG_VERIF",
      "enable": "no hooks are needed: the checks analyse the unmodified sources (LLVM IR / AST of the current working tree)",
      "baseline_off_cmd": "make -C /repo -j8 check",
      "source_commits": [],
      "add_only": True},
     "engines": [{"name": "sa", "path": "/verif/sa", "serves_properties": sorted(CHECKS),
                  "kind_free_text": "custom static analysis over LLVM IR (clang-14 -O0 + mem2reg, dumped by "
                  "tools/irdump.cc) and clang AST matchers; per-property rule modules in sa/props"}],
     "checks": [],
     "not_applicable": [],
     "notes": "All checks are static: nothing under /repo is executed. Exit 2 = analysis broken (never a pass). "
              "Known findings / repaired defects: /verif/known_findings.txt."}
    for pid in ids:
        if pid in CHECKS:
            c = CHECKS[pid]
            m["checks"].append({
             "property_id": pid,
             "quick_cmd": "./check %s --tier quick" % pid,
             "thorough_cmd": "./check %s --tier thorough" % pid,
             "evidence_file": "/verif/evidence/%s.json" % pid,
             "replay_cmd_template": "cat {path}",
             "engine": "sa",
             "level_claimed": {"category": "other", "text": c["text"], "design_ref": "DESIGN.md section 3, " + pid},
             "level_note": c["note"],
             "technique": c["technique"]})
        else:
            m["not_applicable"].append({"property_id": pid, "reason": NA.get(pid, NA_DEFAULT)})
    json.dump(m, open("/verif/MANIFEST.json", "w"), indent=1)

main()
