#!/usr/bin/env python3
"""usage: keep_seed.py <seeddir> <name> <property> <caught_by> <needs> <confirm-result>
copies patch.diff + demonstration into /verif/seeded/<name>/ and writes meta.json"""
import json, os, shutil, sys
src, name, prop, caught, needs, confirm = sys.argv[1:7]
dst = os.path.join("/verif/seeded", name)
os.makedirs(dst, exist_ok=True)
for f in os.listdir(src):
    p = os.path.join(src, f)
    if os.path.isfile(p) and os.path.getsize(p) < 200000 and not f.endswith((".sqfs", ".o", ".log", ".img", ".tar")):
        shutil.copy(p, os.path.join(dst, f))
meta = {
    "property": prop,
    "origin": "independent sub-agent given only the property text and its own scratch worktree",
    "needs_to_manifest": needs,
    "confirmed": {"how": "tools/confirm_seed.sh <scratch worktree> <seed dir>: clean tree builds and demo.sh exits 0; "
                         "patch applied: builds, make check passes, demo.sh exits non-zero",
                  "result": confirm},
    "detected_by": caught,
    "checked_with": "tools/try_scratch.sh patch.diff %s (scratch copy of /repo outside /repo and /verif, patch applied there, ./check with VERIF_REPO, copy removed)" % prop,
}
json.dump(meta, open(os.path.join(dst, "meta.json"), "w"), indent=1)
print("kept", dst, sorted(os.listdir(dst)))
