#!/usr/bin/env python3
"""validate MANIFEST.json and evidence files against the schemas; keep not_applicable complete"""
import json, sys, glob
try:
    import jsonschema
except ImportError:
    sys.path.insert(0, "/opt/veriftools/pyvenv/lib/python3.11/site-packages")
    import jsonschema
m = json.load(open('/verif/MANIFEST.json'))
jsonschema.validate(m, json.load(open('/root/.vp/MANIFEST.schema.json')))
ids = [json.loads(l)['id'] for l in open('/verif/properties.jsonl')]
claimed = {c['property_id'] for c in m['checks']}
na = {c['property_id'] for c in m.get('not_applicable', [])}
assert claimed | na == set(ids) and not (claimed & na), (sorted(claimed), sorted(na))
es = json.load(open('/root/.vp/EVIDENCE.schema.json'))
for f in sorted(glob.glob('/verif/evidence/*.json')):
    jsonschema.validate(json.load(open(f)), es)
    print('valid', f)
print('manifest ok; claimed', sorted(claimed))
