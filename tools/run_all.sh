#!/bin/bash
# usage: tools/run_all.sh [quick|thorough]   -- run every registered check, print one line per property
tier=${1:-quick}
rc=0
for p in C01 C02 C03 C04 C05 C06 C07 C08 C09 C10 C11 C12 C13 C14 C15 C16 C17 C18 C19; do
  out=$(/verif/check $p --tier $tier 2>&1); code=$?
  echo "$p exit=$code $(echo "$out" | grep -E 'VIOLATION|ANALYSIS-BROKEN|KNOWN-FINDING' | head -2 | tr '\n' ' ' | cut -c1-160)"
  [ $code -ne 0 ] && rc=1
done
exit $rc
