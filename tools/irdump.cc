// irdump: serialise one LLVM IR module (one translation unit of /repo, compiled
// from the current working tree) into JSON for the Python rule engine.
//
// Output shape (compact keys, see sa/ir.py for the reader):
//   { "structs": { name: {"size":n,"packed":b,"elems":[{"t":type,"off":n,"n":field|null}]}},
//     "globals": [ {"name","t","internal","const","init":<const>,"file","line"} ],
//     "functions": [ {"name","internal","decl","file","line","ret","varargs",
//                     "params":[{"t","n"}], "blocks":[[inst,...],...]} ] }
// operand encoding: int = value id (arguments first, then instructions, per
// function); ["i",bits,zext]; ["g",name]; ["n"] null; ["u"] undef; ["b",idx];
// ["e",opcode,[ops],{extra}] constant expression; ["a",tyname,[elems]]
// aggregate; ["s",[bytes]] constant data; ["f",double]; ["z",type] zeroinit;
// ["x"] other.
#include "llvm/IR/Constants.h"
#include "llvm/IR/DataLayout.h"
#include "llvm/IR/DebugInfo.h"
#include "llvm/IR/DebugInfoMetadata.h"
#include "llvm/IR/GetElementPtrTypeIterator.h"
#include "llvm/IR/InstIterator.h"
#include "llvm/IR/Instructions.h"
#include "llvm/IR/IntrinsicInst.h"
#include "llvm/IR/LLVMContext.h"
#include "llvm/IR/Module.h"
#include "llvm/IR/Operator.h"
#include "llvm/IRReader/IRReader.h"
#include "llvm/Support/SourceMgr.h"
#include "llvm/Support/raw_ostream.h"
#include <map>
#include <set>
#include <string>
#include <vector>

using namespace llvm;

static std::string jstr(StringRef s) {
  std::string o = "\"";
  for (unsigned char c : s) {
    if (c == '"') o += "\\\"";
    else if (c == '\\') o += "\\\\";
    else if (c < 0x20 || c >= 0x7f) {
      char buf[8];
      snprintf(buf, sizeof buf, "\\u%04x", c);
      o += buf;
    } else o += (char)c;
  }
  o += "\"";
  return o;
}

static std::string tystr(Type *t) {
  std::string s;
  raw_string_ostream os(s);
  t->print(os, false, true);
  os.flush();
  return s;
}

struct FnCtx {
  std::map<const Value *, unsigned> ids;
  std::map<const BasicBlock *, unsigned> bbs;
};

static const DataLayout *DL;

static std::string gepPath(Type *srcTy, ArrayRef<const Value *> idx, FnCtx *fc);
static std::string opnd(const Value *v, FnCtx *fc);

static std::string constEnc(const Constant *c, FnCtx *fc, int depth = 0) {
  if (auto *ci = dyn_cast<ConstantInt>(c)) {
    if (ci->getBitWidth() <= 64)
      return "[\"i\"," + std::to_string(ci->getBitWidth()) + "," +
             std::to_string(ci->getZExtValue()) + "]";
    return "[\"x\"]";
  }
  if (isa<ConstantPointerNull>(c)) return "[\"n\"]";
  if (isa<UndefValue>(c)) return "[\"u\"]";
  if (auto *f = dyn_cast<Function>(c)) return "[\"g\"," + jstr(f->getName()) + "]";
  if (auto *g = dyn_cast<GlobalVariable>(c)) return "[\"g\"," + jstr(g->getName()) + "]";
  if (auto *ga = dyn_cast<GlobalAlias>(c)) return "[\"g\"," + jstr(ga->getName()) + "]";
  if (auto *cf = dyn_cast<ConstantFP>(c)) {
    if (cf->getType()->isDoubleTy() || cf->getType()->isFloatTy()) {
      double d = cf->getType()->isDoubleTy() ? cf->getValueAPF().convertToDouble()
                                             : (double)cf->getValueAPF().convertToFloat();
      char buf[64];
      snprintf(buf, sizeof buf, "%.17g", d);
      std::string s = buf;
      if (s.find("inf") != std::string::npos || s.find("nan") != std::string::npos) s = "0";
      return "[\"f\"," + s + "]";
    }
    return "[\"x\"]";
  }
  if (isa<ConstantAggregateZero>(c)) return "[\"z\"," + jstr(tystr(c->getType())) + "]";
  if (auto *cds = dyn_cast<ConstantDataSequential>(c)) {
    std::string s = "[\"s\",[";
    unsigned n = cds->getNumElements();
    for (unsigned i = 0; i < n; i++) {
      if (i) s += ",";
      if (cds->getElementType()->isIntegerTy())
        s += std::to_string(cds->getElementAsInteger(i));
      else
        s += "0";
    }
    return s + "]]";
  }
  if (auto *ca = dyn_cast<ConstantAggregate>(c)) {
    std::string tn = tystr(c->getType());
    std::string s = "[\"a\"," + jstr(tn) + ",[";
    for (unsigned i = 0; i < ca->getNumOperands(); i++) {
      if (i) s += ",";
      s += constEnc(cast<Constant>(ca->getOperand(i)), fc, depth + 1);
    }
    return s + "]]";
  }
  if (auto *ce = dyn_cast<ConstantExpr>(c)) {
    std::string s = "[\"e\"," + jstr(ce->getOpcodeName()) + ",[";
    for (unsigned i = 0; i < ce->getNumOperands(); i++) {
      if (i) s += ",";
      s += constEnc(cast<Constant>(ce->getOperand(i)), fc, depth + 1);
    }
    s += "],{\"t\":" + jstr(tystr(ce->getType()));
    if (auto *gep = dyn_cast<GEPOperator>(ce)) {
      std::vector<const Value *> idx;
      for (auto it = gep->idx_begin(); it != gep->idx_end(); ++it) idx.push_back(*it);
      s += ",\"gep\":" + gepPath(gep->getSourceElementType(), idx, fc);
    }
    if (ce->isCompare()) s += ",\"p\":" + jstr(CmpInst::getPredicateName((CmpInst::Predicate)ce->getPredicate()));
    return s + "}]";
  }
  if (isa<BlockAddress>(c)) return "[\"x\"]";
  return "[\"x\"]";
}

static std::string opnd(const Value *v, FnCtx *fc) {
  if (auto *c = dyn_cast<Constant>(v)) return constEnc(c, fc);
  if (auto *bb = dyn_cast<BasicBlock>(v)) {
    if (fc) {
      auto it = fc->bbs.find(bb);
      if (it != fc->bbs.end()) return "[\"b\"," + std::to_string(it->second) + "]";
    }
    return "[\"x\"]";
  }
  if (fc) {
    auto it = fc->ids.find(v);
    if (it != fc->ids.end()) return std::to_string(it->second);
  }
  return "[\"x\"]";
}

static std::string gepPath(Type *srcTy, ArrayRef<const Value *> idx, FnCtx *fc) {
  std::string s = "[";
  Type *cur = srcTy;
  bool first = true;
  for (unsigned i = 0; i < idx.size(); i++) {
    if (i) s += ",";
    if (first) {
      s += "[\"*\"," + opnd(idx[i], fc) + "," +
           std::to_string(cur->isSized() ? (uint64_t)DL->getTypeAllocSize(cur) : 0) + "]";
      first = false;
      continue;
    }
    if (auto *st = dyn_cast<StructType>(cur)) {
      unsigned k = (unsigned)cast<ConstantInt>(idx[i])->getZExtValue();
      std::string nm = st->hasName() ? st->getName().str() : tystr(st);
      s += "[" + jstr(nm) + "," + std::to_string(k) + "]";
      cur = st->getElementType(k);
    } else if (auto *at = dyn_cast<ArrayType>(cur)) {
      s += "[\"[]\"," + opnd(idx[i], fc) + "," + std::to_string(at->getNumElements()) + "," +
           std::to_string((uint64_t)DL->getTypeAllocSize(at->getElementType())) + "]";
      cur = at->getElementType();
    } else if (auto *vt = dyn_cast<VectorType>(cur)) {
      s += "[\"[]\"," + opnd(idx[i], fc) + ",0," +
           std::to_string((uint64_t)DL->getTypeAllocSize(vt->getElementType())) + "]";
      cur = vt->getElementType();
    } else {
      s += "[\"?\"]";
    }
  }
  return s + "]";
}

// ---- DWARF field names -------------------------------------------------------
struct FieldNames {
  std::map<StructType *, std::vector<std::string>> names;
  std::map<StructType *, std::string> unionMembers; // JSON list of member names/types
};

static const DIType *stripQual(const DIType *t) {
  while (t) {
    if (auto *d = dyn_cast<DIDerivedType>(t)) {
      unsigned tag = d->getTag();
      if (tag == dwarf::DW_TAG_typedef || tag == dwarf::DW_TAG_const_type ||
          tag == dwarf::DW_TAG_volatile_type || tag == dwarf::DW_TAG_restrict_type ||
          tag == dwarf::DW_TAG_atomic_type) {
        t = d->getBaseType();
        continue;
      }
    }
    break;
  }
  return t;
}

static void assignNames(StructType *st, const DICompositeType *ct, FieldNames &fn, int depth) {
  if (!st || !ct || st->isOpaque() || depth > 8) return;
  if (fn.names.count(st)) return;
  const StructLayout *sl = DL->getStructLayout(st);
  std::vector<std::string> nm(st->getNumElements());
  fn.names[st] = nm;
  bool isUnion = ct->getTag() == dwarf::DW_TAG_union_type;
  std::string um = "[";
  bool firstU = true;
  for (auto *el : ct->getElements()) {
    auto *m = dyn_cast<DIDerivedType>(el);
    if (!m || m->getTag() != dwarf::DW_TAG_member) continue;
    if (m->isStaticMember()) continue;
    uint64_t off = m->getOffsetInBits() / 8;
    const DIType *bt = stripQual(m->getBaseType());
    if (isUnion) {
      if (!firstU) um += ",";
      firstU = false;
      um += jstr(m->getName());
    }
    // find element index whose offset matches (prefer non-padding elements)
    int found = -1;
    for (unsigned i = 0; i < st->getNumElements(); i++) {
      if (sl->getElementOffset(i) == off) {
        if (found < 0) found = i;
        // zero-sized predecessors share the offset: prefer the first unnamed
        if (nm[found].empty()) break;
        if (nm[i].empty()) { found = i; break; }
      }
    }
    if (found < 0) {
      // bitfield or member packed inside another element: attach to the
      // element covering the offset
      for (unsigned i = 0; i < st->getNumElements(); i++) {
        uint64_t eo = sl->getElementOffset(i);
        uint64_t es = DL->getTypeAllocSize(st->getElementType(i));
        if (off >= eo && off < eo + es) { found = i; break; }
      }
    }
    if (found < 0) continue;
    if (nm[found].empty()) nm[found] = m->getName().str();
    else if (nm[found] != m->getName().str()) nm[found] += "|" + m->getName().str();
    // recurse into nested composite
    Type *et = st->getElementType(found);
    while (auto *at = dyn_cast<ArrayType>(et)) et = at->getElementType();
    const DIType *dt = bt;
    while (dt) {
      if (auto *c2 = dyn_cast<DICompositeType>(dt)) {
        if (c2->getTag() == dwarf::DW_TAG_array_type) { dt = stripQual(c2->getBaseType()); continue; }
      }
      break;
    }
    if (auto *est = dyn_cast<StructType>(et))
      if (auto *c2 = dyn_cast_or_null<DICompositeType>(dt))
        if (c2->getTag() == dwarf::DW_TAG_structure_type || c2->getTag() == dwarf::DW_TAG_union_type)
          assignNames(est, c2, fn, depth + 1);
  }
  um += "]";
  fn.names[st] = nm;
  if (isUnion) fn.unionMembers[st] = um;
}

int main(int argc, char **argv) {
  if (argc < 2) { errs() << "usage: irdump file.ll\n"; return 2; }
  LLVMContext ctx;
  SMDiagnostic err;
  std::unique_ptr<Module> M = parseIRFile(argv[1], err, ctx);
  if (!M) { err.print("irdump", errs()); return 2; }
  DL = &M->getDataLayout();
  raw_ostream &O = outs();

  // --- struct field names from DWARF
  FieldNames fn;
  {
    DebugInfoFinder dif;
    dif.processModule(*M);
    std::map<std::string, const DICompositeType *> byName;
    for (auto *t : dif.types()) {
      if (auto *ct = dyn_cast<DICompositeType>(t)) {
        if (ct->isForwardDecl()) continue;
        if (ct->getName().empty()) continue;
        if (ct->getTag() == dwarf::DW_TAG_structure_type) byName["struct." + ct->getName().str()] = ct;
        else if (ct->getTag() == dwarf::DW_TAG_union_type) byName["union." + ct->getName().str()] = ct;
      }
    }
    for (auto *t : dif.types()) {
      if (auto *d = dyn_cast<DIDerivedType>(t)) {
        if (d->getTag() != dwarf::DW_TAG_typedef) continue;
        auto *ct = dyn_cast_or_null<DICompositeType>(d->getBaseType());
        if (!ct || ct->isForwardDecl() || !ct->getName().empty()) continue;
        std::string pfx = ct->getTag() == dwarf::DW_TAG_union_type ? "union." : "struct.";
        if (ct->getTag() != dwarf::DW_TAG_structure_type && ct->getTag() != dwarf::DW_TAG_union_type) continue;
        if (!byName.count(pfx + d->getName().str())) byName[pfx + d->getName().str()] = ct;
      }
    }
    for (auto *st : M->getIdentifiedStructTypes()) {
      if (!st->hasName()) continue;
      auto it = byName.find(st->getName().str());
      if (it != byName.end()) assignNames(st, it->second, fn, 0);
    }
  }

  O << "{\"structs\":{";
  bool first = true;
  for (auto *st : M->getIdentifiedStructTypes()) {
    if (!st->hasName()) continue;
    if (!first) O << ",";
    first = false;
    O << jstr(st->getName()) << ":{";
    if (st->isOpaque()) { O << "\"opaque\":true}"; continue; }
    const StructLayout *sl = DL->getStructLayout(st);
    O << "\"size\":" << sl->getSizeInBytes() << ",\"elems\":[";
    auto nit = fn.names.find(st);
    for (unsigned i = 0; i < st->getNumElements(); i++) {
      if (i) O << ",";
      O << "{\"t\":" << jstr(tystr(st->getElementType(i))) << ",\"off\":" << sl->getElementOffset(i)
        << ",\"sz\":" << DL->getTypeAllocSize(st->getElementType(i));
      if (nit != fn.names.end() && !nit->second[i].empty()) O << ",\"n\":" << jstr(nit->second[i]);
      O << "}";
    }
    O << "]";
    auto uit = fn.unionMembers.find(st);
    if (uit != fn.unionMembers.end()) O << ",\"union\":" << uit->second;
    O << "}";
  }
  O << "},\"globals\":[";
  first = true;
  for (auto &g : M->globals()) {
    if (!first) O << ",";
    first = false;
    O << "{\"name\":" << jstr(g.getName()) << ",\"t\":" << jstr(tystr(g.getValueType()))
      << ",\"internal\":" << (g.hasLocalLinkage() ? "true" : "false")
      << ",\"const\":" << (g.isConstant() ? "true" : "false")
      << ",\"decl\":" << (g.isDeclaration() ? "true" : "false");
    if (g.hasInitializer()) O << ",\"init\":" << constEnc(g.getInitializer(), nullptr);
    SmallVector<DIGlobalVariableExpression *, 1> gves;
    g.getDebugInfo(gves);
    if (!gves.empty()) {
      auto *gv = gves[0]->getVariable();
      O << ",\"file\":" << jstr(gv->getFilename()) << ",\"line\":" << gv->getLine()
        << ",\"src\":" << jstr(gv->getName());
    }
    O << "}";
  }
  O << "],\"functions\":[";
  first = true;
  for (auto &F : *M) {
    if (F.isIntrinsic() && F.getName().startswith("llvm.dbg.")) continue;
    if (!first) O << ",";
    first = false;
    O << "{\"name\":" << jstr(F.getName()) << ",\"internal\":" << (F.hasLocalLinkage() ? "true" : "false")
      << ",\"decl\":" << (F.isDeclaration() ? "true" : "false")
      << ",\"ret\":" << jstr(tystr(F.getReturnType()))
      << ",\"varargs\":" << (F.isVarArg() ? "true" : "false")
      << ",\"noreturn\":" << (F.doesNotReturn() ? "true" : "false");
    std::string ffile;
    if (auto *sp = F.getSubprogram()) {
      ffile = sp->getFilename().str();
      O << ",\"file\":" << jstr(ffile) << ",\"line\":" << sp->getLine();
    }
    // parameter names from dbg.declare/dbg.value with arg numbers
    std::vector<std::string> pnames(F.arg_size());
    if (auto *sp = F.getSubprogram()) {
      for (auto *n : sp->getRetainedNodes())
        if (auto *lv = dyn_cast<DILocalVariable>(n))
          if (lv->getArg() >= 1 && lv->getArg() <= pnames.size()) pnames[lv->getArg() - 1] = lv->getName().str();
    }
    FnCtx fc;
    unsigned id = 0;
    for (auto &a : F.args()) fc.ids[&a] = id++;
    unsigned bbi = 0;
    for (auto &bb : F) {
      fc.bbs[&bb] = bbi++;
      for (auto &I : bb) {
        if (isa<DbgInfoIntrinsic>(&I)) {
          if (auto *dv = dyn_cast<DbgVariableIntrinsic>(&I)) {
            auto *lv = dv->getVariable();
            if (lv && lv->getArg() >= 1 && lv->getArg() <= pnames.size() && pnames[lv->getArg() - 1].empty() &&
                lv->getScope()->getSubprogram() == F.getSubprogram())
              pnames[lv->getArg() - 1] = lv->getName().str();
          }
          continue;
        }
        fc.ids[&I] = id++;
      }
    }
    O << ",\"params\":[";
    unsigned ai = 0;
    for (auto &a : F.args()) {
      if (ai) O << ",";
      O << "{\"t\":" << jstr(tystr(a.getType())) << ",\"n\":" << jstr(pnames[ai]) << "}";
      ai++;
    }
    O << "],\"blocks\":[";
    bool fb = true;
    for (auto &bb : F) {
      if (!fb) O << ",";
      fb = false;
      O << "[";
      bool fi = true;
      for (auto &I : bb) {
        if (isa<DbgInfoIntrinsic>(&I)) {
          // keep variable names for SSA values / allocas: emitted as pseudo
          // instruction "dbg" without id so that reports can name locals
          if (auto *dv = dyn_cast<DbgVariableIntrinsic>(&I)) {
            Value *v = dv->getVariableLocationOp(0);
            auto *lv = dv->getVariable();
            if (v && lv && !isa<Constant>(v)) {
              auto it = fc.ids.find(v);
              if (it != fc.ids.end()) {
                if (!fi) O << ",";
                fi = false;
                O << "{\"o\":\"dbg\",\"v\":" << it->second << ",\"n\":" << jstr(lv->getName()) << "}";
              }
            }
          }
          continue;
        }
        if (!fi) O << ",";
        fi = false;
        O << "{\"i\":" << fc.ids[&I] << ",\"o\":" << jstr(I.getOpcodeName()) << ",\"t\":" << jstr(tystr(I.getType()));
        if (const DebugLoc &dl = I.getDebugLoc()) {
          O << ",\"l\":" << dl.getLine() << ",\"c\":" << dl.getCol();
          if (auto *sc = dyn_cast_or_null<DIScope>(dl.getScope())) {
            std::string f = sc->getFilename().str();
            if (f != ffile) O << ",\"f\":" << jstr(f);
          }
          if (dl.getInlinedAt()) {
            if (auto *sc = dyn_cast_or_null<DILocalScope>(dl.getScope()))
              if (auto *sp = sc->getSubprogram()) O << ",\"inl\":" << jstr(sp->getName());
          }
        }
        auto ops = [&](unsigned from, unsigned to) {
          std::string s = "[";
          for (unsigned k = from; k < to; k++) {
            if (k > from) s += ",";
            s += opnd(I.getOperand(k), &fc);
          }
          return s + "]";
        };
        if (auto *cb = dyn_cast<CallBase>(&I)) {
          const Value *cv = cb->getCalledOperand()->stripPointerCasts();
          O << ",\"cal\":" << opnd(cv, &fc) << ",\"a\":" << ops(0, cb->arg_size());
          O << ",\"fty\":" << jstr(tystr(cb->getFunctionType()));
        } else if (auto *phi = dyn_cast<PHINode>(&I)) {
          O << ",\"a\":[";
          for (unsigned k = 0; k < phi->getNumIncomingValues(); k++) {
            if (k) O << ",";
            O << "[" << opnd(phi->getIncomingValue(k), &fc) << "," << fc.bbs[phi->getIncomingBlock(k)] << "]";
          }
          O << "]";
        } else if (auto *gep = dyn_cast<GetElementPtrInst>(&I)) {
          std::vector<const Value *> idx;
          for (auto it = gep->idx_begin(); it != gep->idx_end(); ++it) idx.push_back(*it);
          O << ",\"a\":" << ops(0, 1) << ",\"sty\":" << jstr(tystr(gep->getSourceElementType()))
            << ",\"gep\":" << gepPath(gep->getSourceElementType(), idx, &fc);
        } else if (auto *sw = dyn_cast<SwitchInst>(&I)) {
          O << ",\"a\":[" << opnd(sw->getCondition(), &fc) << "],\"def\":" << fc.bbs[sw->getDefaultDest()]
            << ",\"cases\":[";
          bool fcse = true;
          for (auto &cs : sw->cases()) {
            if (!fcse) O << ",";
            fcse = false;
            O << "[" << cs.getCaseValue()->getZExtValue() << "," << fc.bbs[cs.getCaseSuccessor()] << "]";
          }
          O << "]";
        } else if (auto *br = dyn_cast<BranchInst>(&I)) {
          if (br->isConditional())
            O << ",\"a\":[" << opnd(br->getCondition(), &fc) << "],\"succ\":[" << fc.bbs[br->getSuccessor(0)] << ","
              << fc.bbs[br->getSuccessor(1)] << "]";
          else
            O << ",\"a\":[],\"succ\":[" << fc.bbs[br->getSuccessor(0)] << "]";
        } else {
          O << ",\"a\":" << ops(0, I.getNumOperands());
          if (auto *cmp = dyn_cast<CmpInst>(&I)) O << ",\"p\":" << jstr(CmpInst::getPredicateName(cmp->getPredicate()));
          if (auto *al = dyn_cast<AllocaInst>(&I)) {
            O << ",\"aty\":" << jstr(tystr(al->getAllocatedType()))
              << ",\"asz\":" << DL->getTypeAllocSize(al->getAllocatedType());
          }
          if (auto *ev = dyn_cast<ExtractValueInst>(&I)) {
            O << ",\"idx\":[";
            for (unsigned k = 0; k < ev->getNumIndices(); k++) { if (k) O << ","; O << ev->getIndices()[k]; }
            O << "]";
          }
          if (auto *iv = dyn_cast<InsertValueInst>(&I)) {
            O << ",\"idx\":[";
            for (unsigned k = 0; k < iv->getNumIndices(); k++) { if (k) O << ","; O << iv->getIndices()[k]; }
            O << "]";
          }
          if (auto *ld = dyn_cast<LoadInst>(&I)) {
            (void)ld;
            O << ",\"sz\":" << DL->getTypeStoreSize(I.getType());
          }
          if (auto *stI = dyn_cast<StoreInst>(&I))
            O << ",\"vt\":" << jstr(tystr(stI->getValueOperand()->getType()))
              << ",\"sz\":" << DL->getTypeStoreSize(stI->getValueOperand()->getType());
          if (auto *ci = dyn_cast<CastInst>(&I)) O << ",\"st\":" << jstr(tystr(ci->getSrcTy()));
        }
        O << "}";
      }
      O << "]";
    }
    O << "]}";
  }
  O << "]}\n";
  return 0;
}
